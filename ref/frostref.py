#!/usr/bin/env python3
"""From-scratch reference for RFC 9591 (FROST), RFC 8032 (Ed25519/Ed448), RFC 9496
(ristretto255), RFC 9380 (hash_to_field/XMD), SEC1 point compression, BIP-340 and the
BIP-341 key tweak.  Python ints + hashlib only.  Written from the specifications, not
from the Rust code; pinned by `--selftest` against the RFC 9591 appendix vectors (copies in
./vectors), RFC 8032 vectors and BIP-340 vectors.

Used by the harness as an oracle over a JSON-lines pipe (`--serve`).
"""
import hashlib
import json
import os
import sys

# =============================================================================
# helpers


def inv(x, p):
    return pow(x, -1, p)


def sha256(b):
    return hashlib.sha256(b).digest()


def sha512(b):
    return hashlib.sha512(b).digest()


def shake256(b, n):
    return hashlib.shake_256(b).digest(n)


# =============================================================================
# twisted Edwards curves (extended coordinates, unified complete addition)


class Edwards:
    def __init__(self, p, a, d, L, Bx, By, cofactor):
        self.p, self.a, self.d, self.L, self.h = p, a % p, d % p, L, cofactor
        self.B = (Bx % p, By % p, 1, Bx * By % p)
        self.O = (0, 1, 1, 0)

    def add(self, P, Q):
        p = self.p
        X1, Y1, Z1, T1 = P
        X2, Y2, Z2, T2 = Q
        A = X1 * X2 % p
        Bv = Y1 * Y2 % p
        C = self.d * T1 % p * T2 % p
        D = Z1 * Z2 % p
        E = ((X1 + Y1) * (X2 + Y2) - A - Bv) % p
        Fv = (D - C) % p
        G = (D + C) % p
        H = (Bv - self.a * A) % p
        return (E * Fv % p, G * H % p, Fv * G % p, E * H % p)

    def neg(self, P):
        X, Y, Z, T = P
        return ((-X) % self.p, Y, Z, (-T) % self.p)

    def mul(self, k, P):
        k %= self.L * self.h if k >= 0 else 1
        R = self.O
        Q = P
        while k:
            if k & 1:
                R = self.add(R, Q)
            Q = self.add(Q, Q)
            k >>= 1
        return R

    def mul_raw(self, k, P):
        R = self.O
        Q = P
        while k:
            if k & 1:
                R = self.add(R, Q)
            Q = self.add(Q, Q)
            k >>= 1
        return R

    def eq(self, P, Q):
        p = self.p
        return (P[0] * Q[2] - Q[0] * P[2]) % p == 0 and (P[1] * Q[2] - Q[1] * P[2]) % p == 0

    def is_identity(self, P):
        return self.eq(P, self.O)

    def affine(self, P):
        zi = inv(P[2], self.p)
        return (P[0] * zi % self.p, P[1] * zi % self.p)

    def on_curve(self, x, y):
        p = self.p
        return (self.a * x * x + y * y - 1 - self.d * x * x % p * y * y) % p == 0


P25519 = 2**255 - 19
L25519 = 2**252 + 27742317777372353535851937790883648493
D25519 = (-121665 * inv(121666, P25519)) % P25519
SQRT_M1 = pow(2, (P25519 - 1) // 4, P25519)


def _ed25519_recover_x(y, sign):
    p = P25519
    if y >= p:
        return None
    x2 = (y * y - 1) * inv(D25519 * y * y + 1, p) % p
    if x2 == 0:
        if sign:
            return None
        return 0
    x = pow(x2, (p + 3) // 8, p)
    if (x * x - x2) % p != 0:
        x = x * SQRT_M1 % p
    if (x * x - x2) % p != 0:
        return None
    if (x & 1) != sign:
        x = p - x
    return x


_By = 4 * inv(5, P25519) % P25519
_Bx = _ed25519_recover_x(_By, 0)
ED25519 = Edwards(P25519, -1, D25519, L25519, _Bx, _By, 8)

P448 = 2**448 - 2**224 - 1
L448 = 2**446 - 13818066809895115352007386748515426880336692474882178609894547503885
ED448 = Edwards(
    P448,
    1,
    -39081,
    L448,
    224580040295924300187604334099896036246789641632564134246125461686950415467406032909029192869357953282578032075146446173674602635247710,
    298819210078481492676017930443930673437544040154080242095928241372331506189835876003536878655418784733982303233503462500531545062832660,
    4,
)


def ed25519_encode(P):
    x, y = ED25519.affine(P)
    return int.to_bytes(y | ((x & 1) << 255), 32, "little")


def ed25519_decode(b):
    """RFC 8032 5.1.3 decoding (canonical y required)."""
    if len(b) != 32:
        return None
    v = int.from_bytes(b, "little")
    sign = v >> 255
    y = v & ((1 << 255) - 1)
    x = _ed25519_recover_x(y, sign)
    if x is None:
        return None
    return (x, y, 1, x * y % P25519)


def ed448_encode(P):
    x, y = ED448.affine(P)
    return int.to_bytes(y, 56, "little") + bytes([(x & 1) << 7])


def ed448_decode(b):
    """RFC 8032 5.2.3 decoding."""
    if len(b) != 57:
        return None
    last = b[56]
    if last & 0x7F:
        return None
    sign = last >> 7
    y = int.from_bytes(b[:56], "little")
    p = P448
    if y >= p:
        return None
    u = (y * y - 1) % p
    v = (ED448.d * y * y - 1) % p
    # x = u^3 v (u^5 v^3)^((p-3)/4)
    x = pow(u, 3, p) * v % p * pow(pow(u, 5, p) * pow(v, 3, p) % p, (p - 3) // 4, p) % p
    if (v * x * x - u) % p != 0:
        return None
    if x == 0 and sign:
        return None
    if (x & 1) != sign:
        x = p - x
    return (x, y, 1, x * y % p)


# ---- ristretto255 (RFC 9496) -------------------------------------------------


def _is_neg(x):
    return x & 1


def _abs(x):
    return (P25519 - x) % P25519 if _is_neg(x) else x


def _sqrt_ratio_m1(u, v):
    p = P25519
    v3 = v * v % p * v % p
    v7 = v3 * v3 % p * v % p
    r = u * v3 % p * pow(u * v7 % p, (p - 5) // 8, p) % p
    check = v * r % p * r % p
    correct = check == u % p
    flipped = check == (-u) % p
    flipped_i = check == (-u) * SQRT_M1 % p
    if flipped or flipped_i:
        r = r * SQRT_M1 % p
    r = _abs(r)
    return (correct or flipped), r


_, INVSQRT_A_MINUS_D = _sqrt_ratio_m1(1, (-1 - D25519) % P25519)


def ristretto_decode(b):
    if len(b) != 32:
        return None
    p = P25519
    s = int.from_bytes(b, "little")
    if s >= p or _is_neg(s):
        return None
    ss = s * s % p
    u1 = (1 - ss) % p
    u2 = (1 + ss) % p
    u2s = u2 * u2 % p
    v = (-(D25519 * u1 % p * u1) - u2s) % p
    ok, invsqrt = _sqrt_ratio_m1(1, v * u2s % p)
    den_x = invsqrt * u2 % p
    den_y = invsqrt * den_x % p * v % p
    x = _abs(2 * s * den_x % p)
    y = u1 * den_y % p
    t = x * y % p
    if (not ok) or _is_neg(t) or y == 0:
        return None
    return (x, y, 1, t)


def ristretto_encode(P):
    p = P25519
    x0, y0, z0, t0 = P
    u1 = (z0 + y0) * (z0 - y0) % p
    u2 = x0 * y0 % p
    _, invsqrt = _sqrt_ratio_m1(1, u1 * u2 % p * u2 % p)
    den1 = invsqrt * u1 % p
    den2 = invsqrt * u2 % p
    z_inv = den1 * den2 % p * t0 % p
    ix0 = x0 * SQRT_M1 % p
    iy0 = y0 * SQRT_M1 % p
    ench = den1 * INVSQRT_A_MINUS_D % p
    rotate = _is_neg(t0 * z_inv % p)
    if rotate:
        x, y, den_inv = iy0, ix0, ench
    else:
        x, y, den_inv = x0, y0, den2
    if _is_neg(x * z_inv % p):
        y = (-y) % p
    s = _abs(den_inv * ((z0 - y) % p) % p)
    return int.to_bytes(s, 32, "little")


# =============================================================================
# short Weierstrass curves (Jacobian coordinates)


class Weier:
    def __init__(self, p, a, b, n, Gx, Gy):
        self.p, self.a, self.b, self.n = p, a % p, b % p, n
        self.G = (Gx, Gy, 1)
        self.O = (0, 1, 0)

    def dbl(self, P):
        p = self.p
        X, Y, Z = P
        if Z == 0 or Y == 0:
            return self.O
        YY = Y * Y % p
        S = 4 * X * YY % p
        M = (3 * X * X + self.a * pow(Z, 4, p)) % p
        X3 = (M * M - 2 * S) % p
        Y3 = (M * (S - X3) - 8 * YY * YY) % p
        Z3 = 2 * Y * Z % p
        return (X3, Y3, Z3)

    def add(self, P, Q):
        p = self.p
        if P[2] == 0:
            return Q
        if Q[2] == 0:
            return P
        X1, Y1, Z1 = P
        X2, Y2, Z2 = Q
        Z1Z1 = Z1 * Z1 % p
        Z2Z2 = Z2 * Z2 % p
        U1 = X1 * Z2Z2 % p
        U2 = X2 * Z1Z1 % p
        S1 = Y1 * Z2 % p * Z2Z2 % p
        S2 = Y2 * Z1 % p * Z1Z1 % p
        if U1 == U2:
            if S1 == S2:
                return self.dbl(P)
            return self.O
        H = (U2 - U1) % p
        R = (S2 - S1) % p
        HH = H * H % p
        HHH = H * HH % p
        V = U1 * HH % p
        X3 = (R * R - HHH - 2 * V) % p
        Y3 = (R * (V - X3) - S1 * HHH) % p
        Z3 = H * Z1 % p * Z2 % p
        return (X3, Y3, Z3)

    def neg(self, P):
        return (P[0], (-P[1]) % self.p, P[2])

    def mul(self, k, P):
        k %= self.n
        R = self.O
        Q = P
        while k:
            if k & 1:
                R = self.add(R, Q)
            Q = self.dbl(Q)
            k >>= 1
        return R

    def is_identity(self, P):
        return P[2] == 0

    def affine(self, P):
        if P[2] == 0:
            return None
        zi = inv(P[2], self.p)
        zi2 = zi * zi % self.p
        return (P[0] * zi2 % self.p, P[1] * zi2 % self.p * zi % self.p)

    def eq(self, P, Q):
        if P[2] == 0 or Q[2] == 0:
            return P[2] == 0 and Q[2] == 0
        return self.affine(P) == self.affine(Q)

    def lift_x(self, x, odd):
        p = self.p
        if x >= p:
            return None
        rhs = (pow(x, 3, p) + self.a * x + self.b) % p
        y = pow(rhs, (p + 1) // 4, p)  # p = 3 mod 4 for both curves
        if y * y % p != rhs:
            return None
        if (y & 1) != odd:
            y = p - y
        return (x, y, 1)

    def encode(self, P):
        x, y = self.affine(P)
        return bytes([2 + (y & 1)]) + int.to_bytes(x, 32, "big")

    def decode(self, b):
        """SEC1 compressed form only (RFC 9591 6.4 / 6.5)."""
        if len(b) != 33 or b[0] not in (2, 3):
            return None
        return self.lift_x(int.from_bytes(b[1:], "big"), b[0] & 1)


P256 = Weier(
    2**256 - 2**224 + 2**192 + 2**96 - 1,
    -3,
    0x5AC635D8AA3A93E7B3EBBD55769886BC651D06B0CC53B0F63BCE3C3E27D2604B,
    0xFFFFFFFF00000000FFFFFFFFFFFFFFFFBCE6FAADA7179E84F3B9CAC2FC632551,
    0x6B17D1F2E12C4247F8BCE6E563A440F277037D812DEB33A0F4A13945D898C296,
    0x4FE342E2FE1A7F9B8EE7EB4A7C0F9E162BCE33576B315ECECBB6406837BF51F5,
)
SECP = Weier(
    2**256 - 2**32 - 977,
    0,
    7,
    0xFFFFFFFFFFFFFFFFFFFFFFFFFFFFFFFEBAAEDCE6AF48A03BBFD25E8CD0364141,
    0x79BE667EF9DCBBAC55A06295CE870B07029BFCDB2DCE28D959F2815B16F81798,
    0x483ADA7726A3C4655DA4FBFC0E1108A8FD17B448A68554199C47D08FFB10D4B8,
)


# =============================================================================
# RFC 9380 expand_message_xmd / hash_to_field (m = 1, count = 1, L = 48, SHA-256)


def expand_message_xmd_sha256(msg, dst, n):
    b_in_bytes, s_in_bytes = 32, 64
    ell = (n + b_in_bytes - 1) // b_in_bytes
    assert ell <= 255 and len(dst) <= 255
    dst_prime = dst + bytes([len(dst)])
    z_pad = bytes(s_in_bytes)
    l_i_b = int.to_bytes(n, 2, "big")
    b0 = sha256(z_pad + msg + l_i_b + b"\x00" + dst_prime)
    bs = [sha256(b0 + b"\x01" + dst_prime)]
    for i in range(2, ell + 1):
        x = bytes(a ^ b for a, b in zip(b0, bs[-1]))
        bs.append(sha256(x + bytes([i]) + dst_prime))
    return b"".join(bs)[:n]


def hash_to_field_sha256(msg, dst, order):
    return int.from_bytes(expand_message_xmd_sha256(msg, dst, 48), "big") % order


def tagged_hash(tag, msg):
    th = sha256(tag.encode())
    return sha256(th + th + msg)


# =============================================================================
# ciphersuites


class Suite:
    name = ""
    ctx = b""
    order = 0
    Ns = 0  # scalar length
    Ne = 0  # element length
    le = True

    # -- scalars
    def ser_scalar(self, x):
        return int.to_bytes(x % self.order, self.Ns, "little" if self.le else "big")

    def de_scalar(self, b):
        """RFC 9591 DeserializeScalar: right length, value in [0, order)."""
        if len(b) != self.Ns:
            return None
        v = int.from_bytes(b, "little" if self.le else "big")
        if v >= self.order:
            return None
        return v

    # -- group (overridden)
    def gen(self):
        raise NotImplementedError

    def identity(self):
        raise NotImplementedError

    def add(self, P, Q):
        raise NotImplementedError

    def neg(self, P):
        raise NotImplementedError

    def mul(self, k, P):
        raise NotImplementedError

    def eq(self, P, Q):
        raise NotImplementedError

    def ser_elem(self, P):
        raise NotImplementedError

    def de_elem(self, b):
        """RFC 9591 DeserializeElement: canonical, in the prime-order group, not identity."""
        raise NotImplementedError

    def base(self, k):
        return self.mul(k, self.gen())

    def sub(self, P, Q):
        return self.add(P, self.neg(Q))

    # -- hashes
    def H1(self, m):
        raise NotImplementedError

    def H2(self, m):
        raise NotImplementedError

    def H3(self, m):
        raise NotImplementedError

    def H4(self, m):
        raise NotImplementedError

    def H5(self, m):
        raise NotImplementedError

    def Hx(self, tag, m):
        """the non-RFC hashes of the implementation family: 'dkg', 'id', 'randomizer'"""
        raise NotImplementedError

    # -- RFC 9591 section 4/5
    def nonce_generate(self, random32, secret):
        return self.H3(random32 + self.ser_scalar(secret))

    def encode_commitment_list(self, clist):
        out = b""
        for (i, D, E) in clist:
            out += self.ser_scalar(i) + self.ser_elem(D) + self.ser_elem(E)
        return out

    def binding_factor_inputs(self, pk_enc, clist, msg):
        prefix = pk_enc + self.H4(msg) + self.H5(self.encode_commitment_list(clist))
        return [(i, prefix + self.ser_scalar(i)) for (i, _, _) in clist]

    def group_commitment(self, clist, rhos):
        R = self.identity()
        for (i, D, E) in clist:
            R = self.add(R, self.add(D, self.mul(rhos[i], E)))
        return R

    def challenge(self, R, PK, msg):
        return self.H2(self.ser_elem(R) + self.ser_elem(PK) + msg)

    def lagrange(self, xi, xs):
        q = self.order
        num, den = 1, 1
        for xj in xs:
            if xj == xi:
                continue
            num = num * xj % q
            den = den * (xj - xi) % q
        return num * inv(den, q) % q

    def sort_key(self, ident):
        return ident  # identifiers are ordered as integers

    def frost_sign(self, pk_enc, msg, signers):
        """signers: list of dict(id:int, share:int, hr:bytes32, br:bytes32) in any order.
        Returns every intermediate value of RFC 9591 sections 4.3-5.3."""
        q = self.order
        PK = self.de_elem(pk_enc)
        if PK is None:
            raise ValueError("bad group key")
        signers = sorted(signers, key=lambda s: self.sort_key(s["id"]))
        per = []
        clist = []
        for s in signers:
            d = self.nonce_generate(s["hr"], s["share"])
            e = self.nonce_generate(s["br"], s["share"])
            D, E = self.base(d), self.base(e)
            per.append(dict(id=s["id"], d=d, e=e, D=D, E=E, share=s["share"]))
            clist.append((s["id"], D, E))
        return self._sign_core(PK, pk_enc, msg, per, clist)

    def _sign_core(self, PK, pk_enc, msg, per, clist):
        q = self.order
        inputs = self.binding_factor_inputs(pk_enc, clist, msg)
        rhos = {i: self.H1(pre) for (i, pre) in inputs}
        R = self.group_commitment(clist, rhos)
        c = self.challenge(R, PK, msg)
        xs = [i for (i, _, _) in clist]
        z = 0
        out_per = []
        for s, (_, pre) in zip(per, inputs):
            lam = self.lagrange(s["id"], xs)
            zi = (s["d"] + s["e"] * rhos[s["id"]] + lam * s["share"] * c) % q
            z = (z + zi) % q
            out_per.append(
                dict(
                    id=self.ser_scalar(s["id"]).hex(),
                    hiding_nonce=self.ser_scalar(s["d"]).hex(),
                    binding_nonce=self.ser_scalar(s["e"]).hex(),
                    hiding_commitment=self.ser_elem(s["D"]).hex(),
                    binding_commitment=self.ser_elem(s["E"]).hex(),
                    binding_factor_input=pre.hex(),
                    binding_factor=self.ser_scalar(rhos[s["id"]]).hex(),
                    lambda_=self.ser_scalar(lam).hex(),
                    sig_share=self.ser_scalar(zi).hex(),
                )
            )
        return dict(
            signers=out_per,
            commitment_list=self.encode_commitment_list(clist).hex(),
            group_commitment=self.ser_elem(R).hex(),
            challenge=self.ser_scalar(c).hex(),
            signature=(self.ser_elem(R) + self.ser_scalar(z)).hex(),
        )

    # -- prime-order Schnorr verification (RFC 9591 appendix / section 3 style)
    def verify(self, pk_enc, msg, sig):
        if len(sig) != self.Ne + self.Ns:
            return False
        R = self.de_elem(sig[: self.Ne])
        z = self.de_scalar(sig[self.Ne :])
        PK = self.de_elem(pk_enc)
        if R is None or z is None or PK is None:
            return False
        c = self.challenge(R, PK, msg)
        return self.eq(self.base(z), self.add(R, self.mul(c, PK)))

    # -- independent single signer (plain Schnorr in the group)
    def single_sign(self, sk, msg, rand):
        k = self.H3(rand + self.ser_scalar(sk)) or 1
        R = self.base(k)
        PK = self.base(sk)
        c = self.challenge(R, PK, msg)
        z = (k + c * sk) % self.order
        return self.ser_elem(PK), self.ser_elem(R) + self.ser_scalar(z)


class _EdSuite(Suite):
    curve = None
    le = True

    def gen(self):
        return self.curve.B

    def identity(self):
        return self.curve.O

    def add(self, P, Q):
        return self.curve.add(P, Q)

    def neg(self, P):
        return self.curve.neg(P)

    def mul(self, k, P):
        return self.curve.mul_raw(k % self.order, P)

    def eq(self, P, Q):
        return self.curve.eq(P, Q)


class Ed25519Suite(_EdSuite):
    name = "ed25519"
    ctx = b"FROST-ED25519-SHA512-v1"
    curve = ED25519
    order = L25519
    Ns, Ne = 32, 32

    def ser_elem(self, P):
        if self.curve.is_identity(P):
            raise ValueError("identity")
        return ed25519_encode(P)

    def de_elem(self, b):
        P = ed25519_decode(b)
        if P is None:
            return None
        if self.curve.is_identity(P):
            return None
        if not self.curve.is_identity(self.curve.mul_raw(self.order, P)):
            return None
        return P

    def _hs(self, m):
        return int.from_bytes(sha512(m), "little") % self.order

    def H1(self, m):
        return self._hs(self.ctx + b"rho" + m)

    def H2(self, m):
        return self._hs(m)

    def H3(self, m):
        return self._hs(self.ctx + b"nonce" + m)

    def H4(self, m):
        return sha512(self.ctx + b"msg" + m)

    def H5(self, m):
        return sha512(self.ctx + b"com" + m)

    def Hx(self, tag, m):
        return self._hs(self.ctx + tag + m)

    def verify(self, pk_enc, msg, sig):
        """RFC 8032 5.1.7, strict flavour: canonical A, R, S < L, A and R not of small order,
        cofactorless equation."""
        if len(sig) != 64 or len(pk_enc) != 32:
            return False
        A = ed25519_decode(pk_enc)
        R = ed25519_decode(sig[:32])
        S = int.from_bytes(sig[32:], "little")
        if A is None or R is None or S >= self.order:
            return False
        c = self.curve
        if c.is_identity(c.mul_raw(8, A)) or c.is_identity(c.mul_raw(8, R)):
            return False
        k = int.from_bytes(sha512(sig[:32] + pk_enc + msg), "little") % self.order
        return c.eq(c.mul_raw(S, c.B), c.add(R, c.mul_raw(k, A)))

    def rfc8032_sign(self, seed, msg):
        h = sha512(seed)
        a = bytearray(h[:32])
        a[0] &= 248
        a[31] &= 127
        a[31] |= 64
        s = int.from_bytes(a, "little")
        prefix = h[32:]
        c = self.curve
        A = ed25519_encode(c.mul_raw(s, c.B))
        r = int.from_bytes(sha512(prefix + msg), "little") % self.order
        Rb = ed25519_encode(c.mul_raw(r, c.B))
        k = int.from_bytes(sha512(Rb + A + msg), "little") % self.order
        S = (r + k * s) % self.order
        return A, Rb + int.to_bytes(S, 32, "little")


class RistrettoSuite(_EdSuite):
    name = "ristretto255"
    ctx = b"FROST-RISTRETTO255-SHA512-v1"
    curve = ED25519
    order = L25519
    Ns, Ne = 32, 32

    def eq(self, P, Q):
        p = P25519
        return (P[0] * Q[1] - P[1] * Q[0]) % p == 0 or (P[1] * Q[1] - P[0] * Q[0]) % p == 0

    def ser_elem(self, P):
        b = ristretto_encode(P)
        if b == bytes(32):
            raise ValueError("identity")
        return b

    def de_elem(self, b):
        P = ristretto_decode(b)
        if P is None or b == bytes(32):
            return None
        return P

    def _hs(self, m):
        return int.from_bytes(sha512(m), "little") % self.order

    def H1(self, m):
        return self._hs(self.ctx + b"rho" + m)

    def H2(self, m):
        return self._hs(self.ctx + b"chal" + m)

    def H3(self, m):
        return self._hs(self.ctx + b"nonce" + m)

    def H4(self, m):
        return sha512(self.ctx + b"msg" + m)

    def H5(self, m):
        return sha512(self.ctx + b"com" + m)

    def Hx(self, tag, m):
        return self._hs(self.ctx + tag + m)


class Ed448Suite(_EdSuite):
    name = "ed448"
    ctx = b"FROST-ED448-SHAKE256-v1"
    curve = ED448
    order = L448
    Ns, Ne = 57, 57

    def ser_elem(self, P):
        if self.curve.is_identity(P):
            raise ValueError("identity")
        return ed448_encode(P)

    def de_elem(self, b):
        P = ed448_decode(b)
        if P is None:
            return None
        if self.curve.is_identity(P):
            return None
        if not self.curve.is_identity(self.curve.mul_raw(self.order, P)):
            return None
        return P

    def _hs(self, m):
        return int.from_bytes(shake256(m, 114), "little") % self.order

    def H1(self, m):
        return self._hs(self.ctx + b"rho" + m)

    def H2(self, m):
        return self._hs(b"SigEd448" + bytes([0, 0]) + m)

    def H3(self, m):
        return self._hs(self.ctx + b"nonce" + m)

    def H4(self, m):
        return shake256(self.ctx + b"msg" + m, 114)

    def H5(self, m):
        return shake256(self.ctx + b"com" + m, 114)

    def Hx(self, tag, m):
        return self._hs(self.ctx + tag + m)

    def verify(self, pk_enc, msg, sig):
        """RFC 8032 5.2.7 (context empty, phflag 0), cofactorless, canonical encodings."""
        if len(sig) != 114 or len(pk_enc) != 57:
            return False
        A = ed448_decode(pk_enc)
        R = ed448_decode(sig[:57])
        S = int.from_bytes(sig[57:], "little")
        if A is None or R is None or S >= self.order:
            return False
        c = self.curve
        if c.is_identity(c.mul_raw(4, A)) or c.is_identity(c.mul_raw(4, R)):
            return False
        k = int.from_bytes(shake256(b"SigEd448" + bytes([0, 0]) + sig[:57] + pk_enc + msg, 114), "little") % self.order
        return c.eq(c.mul_raw(S, c.B), c.add(R, c.mul_raw(k, A)))

    def rfc8032_sign(self, seed, msg):
        h = shake256(seed, 114)
        a = bytearray(h[:57])
        a[0] &= 252
        a[55] |= 128
        a[56] = 0
        s = int.from_bytes(a, "little")
        prefix = h[57:]
        c = self.curve
        dom = b"SigEd448" + bytes([0, 0])
        A = ed448_encode(c.mul_raw(s, c.B))
        r = int.from_bytes(shake256(dom + prefix + msg, 114), "little") % self.order
        Rb = ed448_encode(c.mul_raw(r, c.B))
        k = int.from_bytes(shake256(dom + Rb + A + msg, 114), "little") % self.order
        S = (r + k * s) % self.order
        return A, Rb + int.to_bytes(S, 57, "little")


class _WSuite(Suite):
    curve = None
    le = False

    def gen(self):
        return self.curve.G

    def identity(self):
        return self.curve.O

    def add(self, P, Q):
        return self.curve.add(P, Q)

    def neg(self, P):
        return self.curve.neg(P)

    def mul(self, k, P):
        return self.curve.mul(k, P)

    def eq(self, P, Q):
        return self.curve.eq(P, Q)

    def ser_elem(self, P):
        if self.curve.is_identity(P):
            raise ValueError("identity")
        return self.curve.encode(P)

    def de_elem(self, b):
        return self.curve.decode(b)

    def H1(self, m):
        return hash_to_field_sha256(m, self.ctx + b"rho", self.order)

    def H2(self, m):
        return hash_to_field_sha256(m, self.ctx + b"chal", self.order)

    def H3(self, m):
        return hash_to_field_sha256(m, self.ctx + b"nonce", self.order)

    def H4(self, m):
        return sha256(self.ctx + b"msg" + m)

    def H5(self, m):
        return sha256(self.ctx + b"com" + m)

    def Hx(self, tag, m):
        return hash_to_field_sha256(m, self.ctx + tag, self.order)


class P256Suite(_WSuite):
    name = "p256"
    ctx = b"FROST-P256-SHA256-v1"
    curve = P256
    order = P256.n
    Ns, Ne = 32, 33


class SecpSuite(_WSuite):
    name = "secp256k1"
    ctx = b"FROST-secp256k1-SHA256-v1"
    curve = SECP
    order = SECP.n
    Ns, Ne = 32, 33


class SecpTrSuite(_WSuite):
    """FROST over secp256k1 producing BIP-340 signatures.  Derived from BIP-340: the effective
    secret is the one whose public key has even Y, the effective nonce the one whose R has even
    Y; the challenge is the BIP-340 tagged hash over x(R) || x(P) || m; the signature is
    x(R) || s."""

    name = "secp256k1-tr"
    ctx = b"FROST-secp256k1-SHA256-TR-v1"
    curve = SECP
    order = SECP.n
    Ns, Ne = 32, 33

    def H2(self, m):
        return int.from_bytes(tagged_hash("BIP0340/challenge", m), "big") % self.order

    def challenge(self, R, PK, msg):
        rx = self.curve.affine(R)[0]
        px = self.curve.affine(PK)[0]
        return self.H2(int.to_bytes(rx, 32, "big") + int.to_bytes(px, 32, "big") + msg)

    def frost_sign(self, pk_enc, msg, signers):
        q = self.order
        PK = self.de_elem(pk_enc)
        if PK is None:
            raise ValueError("bad group key")
        key_odd = self.curve.affine(PK)[1] & 1
        # BIP-340: sign with the secret whose public key has even Y
        if key_odd:
            PK = self.neg(PK)
        pk_even_enc = self.ser_elem(PK)
        signers = sorted(signers, key=lambda s: s["id"])
        per, clist = [], []
        for s in signers:
            d = self.nonce_generate(s["hr"], s["share"])
            e = self.nonce_generate(s["br"], s["share"])
            D, E = self.base(d), self.base(e)
            eff = (q - s["share"]) % q if key_odd else s["share"]
            per.append(dict(id=s["id"], d=d, e=e, D=D, E=E, share=eff))
            clist.append((s["id"], D, E))
        inputs = self.binding_factor_inputs(pk_even_enc, clist, msg)
        rhos = {i: self.H1(pre) for (i, pre) in inputs}
        R = self.group_commitment(clist, rhos)
        r_odd = self.curve.affine(R)[1] & 1
        c = self.challenge(R, PK, msg)
        xs = [i for (i, _, _) in clist]
        z = 0
        out_per = []
        for s, (_, pre) in zip(per, inputs):
            lam = self.lagrange(s["id"], xs)
            k = (s["d"] + s["e"] * rhos[s["id"]]) % q
            if r_odd:
                k = (q - k) % q
            zi = (k + lam * s["share"] * c) % q
            z = (z + zi) % q
            out_per.append(
                dict(
                    id=self.ser_scalar(s["id"]).hex(),
                    hiding_nonce=self.ser_scalar(s["d"]).hex(),
                    binding_nonce=self.ser_scalar(s["e"]).hex(),
                    hiding_commitment=self.ser_elem(s["D"]).hex(),
                    binding_commitment=self.ser_elem(s["E"]).hex(),
                    binding_factor_input=pre.hex(),
                    binding_factor=self.ser_scalar(rhos[s["id"]]).hex(),
                    lambda_=self.ser_scalar(lam).hex(),
                    sig_share=self.ser_scalar(zi).hex(),
                )
            )
        rx = self.curve.affine(R)[0]
        return dict(
            signers=out_per,
            commitment_list=self.encode_commitment_list(clist).hex(),
            group_commitment=self.ser_elem(R).hex(),
            group_commitment_odd=bool(r_odd),
            key_odd=bool(key_odd),
            challenge=self.ser_scalar(c).hex(),
            signature=(int.to_bytes(rx, 32, "big") + self.ser_scalar(z)).hex(),
        )

    def verify(self, pk_enc, msg, sig):
        """pk_enc: 33-byte SEC1 (only x is used) or 32-byte x-only"""
        if len(pk_enc) == 33:
            if pk_enc[0] not in (2, 3):
                return False
            pk_enc = pk_enc[1:]
        return bip340_verify(pk_enc, msg, sig)

    def single_sign(self, sk, msg, rand):
        pkx, sig = bip340_sign(sk, msg, rand[:32].ljust(32, b"\0"))
        return b"\x02" + pkx, sig


def bip340_verify(pkx, msg, sig):
    if len(pkx) != 32 or len(sig) != 64:
        return False
    c = SECP
    P = c.lift_x(int.from_bytes(pkx, "big"), 0)
    r = int.from_bytes(sig[:32], "big")
    s = int.from_bytes(sig[32:], "big")
    if P is None or r >= c.p or s >= c.n:
        return False
    e = int.from_bytes(tagged_hash("BIP0340/challenge", sig[:32] + pkx + msg), "big") % c.n
    R = c.add(c.mul(s, c.G), c.mul(c.n - e, P))
    if c.is_identity(R):
        return False
    x, y = c.affine(R)
    return (y & 1) == 0 and x == r


def bip340_sign(sk, msg, aux):
    c = SECP
    d0 = sk % c.n
    assert d0 != 0
    P = c.mul(d0, c.G)
    px, py = c.affine(P)
    d = d0 if py % 2 == 0 else c.n - d0
    t = int.to_bytes(d ^ int.from_bytes(tagged_hash("BIP0340/aux", aux), "big"), 32, "big")
    pkx = int.to_bytes(px, 32, "big")
    k0 = int.from_bytes(tagged_hash("BIP0340/nonce", t + pkx + msg), "big") % c.n
    assert k0 != 0
    R = c.mul(k0, c.G)
    rx, ry = c.affine(R)
    k = k0 if ry % 2 == 0 else c.n - k0
    rb = int.to_bytes(rx, 32, "big")
    e = int.from_bytes(tagged_hash("BIP0340/challenge", rb + pkx + msg), "big") % c.n
    sig = rb + int.to_bytes((k + e * d) % c.n, 32, "big")
    return pkx, sig


def taproot_tweak_pubkey(pkx, h):
    """BIP-341 taproot_tweak_pubkey: returns (parity, x(Q), t). h = b'' for key-path-only."""
    c = SECP
    t = int.from_bytes(tagged_hash("TapTweak", pkx + h), "big")
    if t >= c.n:
        raise ValueError("tweak out of range")
    P = c.lift_x(int.from_bytes(pkx, "big"), 0)
    if P is None:
        raise ValueError("bad x")
    Q = c.add(P, c.mul(t, c.G))
    x, y = c.affine(Q)
    return y & 1, int.to_bytes(x, 32, "big"), t


SUITES = {s.name: s for s in [Ed25519Suite(), RistrettoSuite(), Ed448Suite(), P256Suite(), SecpSuite(), SecpTrSuite()]}


# =============================================================================
# catalogue of invalid encodings (C12)


def _le(v, n):
    return int.to_bytes(v, n, "little")


def _be(v, n):
    return int.to_bytes(v, n, "big")


def catalog(s):
    """returns list of (what, kind, bytes) that DeserializeScalar / DeserializeElement must reject,
    and a few that must be accepted (kind starts with 'ok:')."""
    out = []
    q = s.order
    enc = (lambda v: _le(v, s.Ns)) if s.le else (lambda v: _be(v, s.Ns))
    top = 1 << (8 * s.Ns)
    out.append(("scalar", "order", enc(q)))
    out.append(("scalar", "order+1", enc(q + 1)))
    out.append(("scalar", "2*order-1" if 2 * q - 1 < top else "order+2", enc(2 * q - 1 if 2 * q - 1 < top else q + 2)))
    out.append(("scalar", "all-ones", b"\xff" * s.Ns))
    out.append(("scalar", "ok:order-1", enc(q - 1)))
    out.append(("scalar", "ok:zero", enc(0)))
    out.append(("scalar", "ok:one", enc(1)))
    for k in range(1, 9):
        v = q + (1 << (8 * k - 1))
        if v < top:
            out.append(("scalar", "order+2^%d" % (8 * k - 1), enc(v)))
    if s.name == "ed448":
        # 57-byte strings whose 57th byte is not zero (value >= 2^448 > order)
        for b in (1, 0x80, 0xFF):
            out.append(("scalar", "top-byte-%02x" % b, _le(5, 56) + bytes([b])))
        out.append(("scalar", "canonical-value-with-top-byte", _le(q - 1, 56) + b"\x01"))
    if s.name in ("ed25519", "ristretto255"):
        out.append(("scalar", "bit-255-set", _le(5 | (1 << 255), 32)))
        out.append(("scalar", "bit-252-and-more", _le((1 << 253) - 1, 32)))
    for n in (0, 1, s.Ns - 1, s.Ns + 1, 2 * s.Ns):
        out.append(("scalar", "len-%d" % n, b"\x01" * n))
    # elements
    for n in (0, 1, s.Ne - 1, s.Ne + 1, 2 * s.Ne):
        out.append(("element", "len-%d" % n, b"\x02" * n))
    out.append(("element", "all-zero", bytes(s.Ne)))
    out.append(("element", "all-ones", b"\xff" * s.Ne))
    out.append(("element", "ok:generator", s.ser_elem(s.gen())))
    out.append(("element", "ok:2G", s.ser_elem(s.base(2))))
    if s.name == "ed25519":
        p = P25519
        out.append(("element", "identity", _le(1, 32)))
        out.append(("element", "identity-noncanonical-sign", _le(1 | (1 << 255), 32)))
        out.append(("element", "order2", _le(p - 1, 32)))
        out.append(("element", "order4-a", _le(0, 32)))
        out.append(("element", "order4-b", _le(1 << 255, 32)))
        # order-8 points and non-canonical y encodings
        c = ED25519
        # find a point of order 8: [L]P for random P of full order
        y = 3
        T8 = None
        while T8 is None:
            x = _ed25519_recover_x(y, 0)
            if x is not None:
                P = (x, y, 1, x * y % p)
                T = c.mul_raw(L25519, P)
                if not c.is_identity(c.mul_raw(4, T)):
                    T8 = T
            y += 1
        out.append(("element", "order8", ed25519_encode(T8)))
        out.append(("element", "order8-neg", ed25519_encode(c.neg(T8))))
        # mixed order: G + T8, G + order2
        out.append(("element", "mixed-order-G+T8", ed25519_encode(c.add(c.B, T8))))
        out.append(("element", "mixed-order-G+T2", ed25519_encode(c.add(c.B, (0, p - 1, 1, 0)))))
        out.append(("element", "mixed-order-5G+T4", ed25519_encode(c.add(c.mul_raw(5, c.B), c.mul_raw(2, T8)))))
        # non-canonical y >= p (19 values p..2^255-1)
        for yy in range(p, 1 << 255):
            for sg in (0, 1):
                out.append(("element", "noncanonical-y-%d-%d" % (yy - p, sg), _le(yy | (sg << 255), 32)))
        # y not on curve
        y = 2
        while _ed25519_recover_x(y, 0) is not None:
            y += 1
        out.append(("element", "not-on-curve", _le(y, 32)))
        # x = 0 with sign bit set (y = 1 handled above; y = -1)
        out.append(("element", "x0-sign1", _le((p - 1) | (1 << 255), 32)))
    elif s.name == "ristretto255":
        p = P25519
        out.append(("element", "identity", bytes(32)))
        out.append(("element", "noncanonical-s=p", _le(p, 32)))
        out.append(("element", "noncanonical-s=p+2", _le(p + 2, 32)))
        out.append(("element", "negative-s=1", _le(1, 32)))
        out.append(("element", "negative-s=p-2", _le(p - 2, 32)))
        out.append(("element", "high-bit", _le(2 | (1 << 255), 32)))
        # RFC 9496 A.3 style: values that are canonical & non-negative but do not decode
        cnt = 0
        v = 2
        while cnt < 6:
            if ristretto_decode(_le(v, 32)) is None:
                out.append(("element", "no-square-%d" % v, _le(v, 32)))
                cnt += 1
            v += 2
    elif s.name == "ed448":
        p = P448
        c = ED448
        out.append(("element", "identity", _le(1, 56) + b"\0"))
        out.append(("element", "identity-sign", _le(1, 56) + b"\x80"))
        out.append(("element", "order2", _le(p - 1, 56) + b"\0"))
        out.append(("element", "order4-a", _le(0, 56) + b"\0"))
        out.append(("element", "order4-b", _le(0, 56) + b"\x80"))
        T2 = (0, p - 1, 1, 0)
        T4 = (1, 0, 1, 0)
        out.append(("element", "mixed-order-G+T2", ed448_encode(c.add(c.B, T2))))
        out.append(("element", "mixed-order-G+T4", ed448_encode(c.add(c.B, T4))))
        out.append(("element", "mixed-order-3G-T4", ed448_encode(c.add(c.mul_raw(3, c.B), c.neg(T4)))))
        for k in range(0, 6):
            out.append(("element", "noncanonical-y=p+%d" % k, _le(p + k, 56) + b"\0"))
            out.append(("element", "noncanonical-y=p+%d-sign" % k, _le(p + k, 56) + b"\x80"))
        g = ed448_encode(c.B)
        for bit in (1, 2, 0x40, 0x7F):
            out.append(("element", "last-byte-low-bits-%02x" % bit, g[:56] + bytes([g[56] | bit])))
        y = 2
        while ed448_decode(_le(y, 56) + b"\0") is not None:
            y += 1
        out.append(("element", "not-on-curve", _le(y, 56) + b"\0"))
    else:
        c = s.curve
        gx = c.affine(c.G)[0]
        for tag in (0, 1, 4, 5, 6, 7, 0x82, 0xFF):
            out.append(("element", "tag-%02x" % tag, bytes([tag]) + _be(gx, 32)))
        out.append(("element", "x=p", b"\x02" + _be(c.p, 32)))
        out.append(("element", "x=p+1", b"\x03" + _be(c.p + 1, 32)))
        gxp = gx + c.p
        if gxp < (1 << 256):
            out.append(("element", "x=gx+p", b"\x02" + _be(gxp, 32)))
        x = 1
        cnt = 0
        while cnt < 4:
            if c.lift_x(x, 0) is None:
                out.append(("element", "x-not-on-curve-%d" % x, b"\x02" + _be(x, 32)))
                out.append(("element", "x-not-on-curve-%d-odd" % x, b"\x03" + _be(x, 32)))
                cnt += 1
            x += 1
        out.append(("element", "sec1-identity-padded", bytes(33)))
    return out


# =============================================================================
# server


def H(x):
    return bytes.fromhex(x)


def handle(req):
    op = req["op"]
    if op == "ping":
        return {"ok": True}
    if op == "tweak":
        pk = H(req["pk"])
        if len(pk) == 33:
            pk = pk[1:]
        root = req.get("root")
        parity, qx, t = taproot_tweak_pubkey(pk, b"" if root is None else H(root))
        return {"parity": parity, "qx": qx.hex(), "t": _be(t, 32).hex()}
    if op == "bip340_verify":
        return {"ok": bip340_verify(H(req["pkx"]), H(req["msg"]), H(req["sig"]))}
    s = SUITES[req["suite"]]
    if op == "verify":
        return {"ok": bool(s.verify(H(req["vk"]), H(req["msg"]), H(req["sig"])))}
    if op == "frost_sign":
        signers = []
        for x in req["signers"]:
            i = s.de_scalar(H(x["id"]))
            sh = s.de_scalar(H(x["share"]))
            if i is None or sh is None:
                raise ValueError("bad scalar in request")
            signers.append(dict(id=i, share=sh, hr=H(x["hr"]), br=H(x["br"])))
        return s.frost_sign(H(req["pk"]), H(req["msg"]), signers)
    if op == "nonce":
        sh = s.de_scalar(H(req["share"]))
        k = s.nonce_generate(H(req["random"]), sh)
        return {"nonce": s.ser_scalar(k).hex(), "commitment": (s.ser_elem(s.base(k)).hex() if k else None)}
    if op == "nonce_many":
        sh = s.de_scalar(H(req["share"]))
        res = []
        for r in req["randoms"]:
            k = s.nonce_generate(H(r), sh)
            res.append([s.ser_scalar(k).hex(), (s.ser_elem(s.base(k)).hex() if k else None)])
        return {"results": res}
    if op == "id_u16":
        return {"enc": s.ser_scalar(int(req["n"])).hex()}
    if op == "hash":
        which = req["which"]
        m = H(req["msg"])
        if which in ("H1", "H2", "H3"):
            return {"scalar": s.ser_scalar(getattr(s, which)(m)).hex()}
        if which in ("H4", "H5"):
            return {"bytes": getattr(s, which)(m).hex()}
        return {"scalar": s.ser_scalar(s.Hx(which.encode(), m)).hex()}
    if op == "base_mul":
        k = s.de_scalar(H(req["scalar"]))
        return {"element": s.ser_elem(s.base(k)).hex() if k else None}
    if op == "single_sign":
        sk = s.de_scalar(H(req["sk"]))
        pk, sig = s.single_sign(sk, H(req["msg"]), H(req["rand"]))
        return {"pk": pk.hex(), "sig": sig.hex()}
    if op == "rfc8032_sign":
        pk, sig = s.rfc8032_sign(H(req["seed"]), H(req["msg"]))
        return {"pk": pk.hex(), "sig": sig.hex()}
    if op == "decode_scalar":
        v = s.de_scalar(H(req["bytes"]))
        return {"ok": v is not None, "reenc": (s.ser_scalar(v).hex() if v is not None else None), "zero": v == 0}
    if op == "decode_element":
        P = s.de_elem(H(req["bytes"]))
        return {"ok": P is not None, "reenc": (s.ser_elem(P).hex() if P is not None else None)}
    if op == "decode_many":
        res = []
        for kind, b in req["items"]:
            b = H(b)
            if kind == "scalar":
                v = s.de_scalar(b)
                res.append([v is not None, s.ser_scalar(v).hex() if v is not None else None, v == 0])
            else:
                P = s.de_elem(b)
                res.append([P is not None, s.ser_elem(P).hex() if P is not None else None, False])
        return {"results": res}
    if op == "catalog":
        return {"items": [[w, k, b.hex()] for (w, k, b) in catalog(s)]}
    if op == "lagrange":
        xs = [s.de_scalar(H(x)) for x in req["xs"]]
        xi = s.de_scalar(H(req["xi"]))
        return {"lambda_": s.ser_scalar(s.lagrange(xi, xs)).hex()}
    raise ValueError("unknown op " + op)


def serve():
    for line in sys.stdin:
        line = line.strip()
        if not line:
            continue
        try:
            out = handle(json.loads(line))
        except Exception as e:  # reported to the harness as *inconclusive*, never as a violation
            out = {"error": "%s: %s" % (type(e).__name__, e)}
        sys.stdout.write(json.dumps(out) + "\n")
        sys.stdout.flush()


# =============================================================================
# self test


def selftest(verbose=True):
    here = os.path.dirname(os.path.abspath(__file__))
    n_checked = 0

    def check(cond, what):
        nonlocal n_checked
        n_checked += 1
        if not cond:
            raise AssertionError("selftest failed: " + what)

    # RFC 8032 7.1 TEST 1 and 7.4 blank
    ed = SUITES["ed25519"]
    pk, sig = ed.rfc8032_sign(H("9d61b19deffd5a60ba844af492ec2cc44449c5697b326919703bac031cae7f60"), b"")
    check(pk.hex() == "d75a980182b10ab7d54bfed3c964073a0ee172f3daa62325af021a68f707511a", "rfc8032 ed25519 pk")
    check(
        sig.hex()
        == "e5564300c360ac729086e2cc806e828a84877f1eb8e5d974d873e065224901555fb8821590a33bacc61e39701cf9b46bd25bf5f0595bbe24655141438e7a100b",
        "rfc8032 ed25519 sig",
    )
    check(ed.verify(pk, b"", sig), "rfc8032 ed25519 verify")
    check(not ed.verify(pk, b"x", sig), "rfc8032 ed25519 verify neg")
    e4 = SUITES["ed448"]
    pk, sig = e4.rfc8032_sign(
        H("6c82a562cb808d10d632be89c8513ebf6c929f34ddfa8c9f63c9960ef6e348a3528c8a3fcc2f044e39a3fc5b94492f8f032e7549a20098f95b"), b""
    )
    check(
        pk.hex()
        == "5fd7449b59b461fd2ce787ec616ad46a1da1342485a70e1f8a0ea75d80e96778edf124769b46c7061bd6783df1e50f6cd1fa1abeafe8256180",
        "rfc8032 ed448 pk",
    )
    check(
        sig.hex()
        == "533a37f6bbe457251f023c0d88f976ae2dfb504a843e34d2074fd823d41a591f2b233f034f628281f2fd7a22ddd47d7828c59bd0a21bfd3980"
        "ff0d2028d4b18a9df63e006c5d1c2d345b925d8dc00b4104852db99ac5c7cdda8530a113a0f4dbb61149f05a7363268c71d95808ff2e652600",
        "rfc8032 ed448 sig",
    )
    check(e4.verify(pk, b"", sig), "rfc8032 ed448 verify")
    # ristretto255 generator (RFC 9496 A.1)
    check(
        ristretto_encode(ED25519.B).hex() == "e2f2ae0a6abc4e71a884a961c500515f58e30b6aa582dd8db6a65945e08d2d76",
        "ristretto generator encoding",
    )
    check(ristretto_encode(ED25519.O) == bytes(32), "ristretto identity encoding")
    # BIP-340 vectors 0 and 1
    pkx, sig = bip340_sign(3, bytes(32), bytes(32))
    check(pkx.hex().upper() == "F9308A019258C31049344F85F89D5229B531C845836F99B08601F113BCE036F9", "bip340 v0 pk")
    check(
        sig.hex().upper()
        == "E907831F80848D1069A5371B402410364BDF1C5F8307B0084C55F1CE2DCA821525F66A4A85EA8B71E482A74F382D2CE5EBEEE8FDB2172F477DF4900D310536C0",
        "bip340 v0 sig",
    )
    check(bip340_verify(pkx, bytes(32), sig), "bip340 v0 verify")
    pkx, sig = bip340_sign(
        0xB7E151628AED2A6ABF7158809CF4F3C762E7160F38B4DA56A784D9045190CFEF,
        H("243F6A8885A308D313198A2E03707344A4093822299F31D0082EFA98EC4E6C89"),
        _be(1, 32),
    )
    check(pkx.hex().upper() == "DFF1D77F2A671C5F36183726DB2341BE58FEAE1DA2DECED843240F7B502BA659", "bip340 v1 pk")
    check(
        sig.hex().upper()
        == "6896BD60EEAE296DB48A229FF71DFE071BDE413E6D43F917DC8DCF8C78DE33418906D11AC976ABCCB20B091292BFF4EA897EFCB639EA871CFA95F6DE339E4B0A",
        "bip340 v1 sig",
    )
    # RFC 9591 appendix E vectors (+ the repository's big-identifier vectors)
    for name, s in SUITES.items():
        for fname in ("vectors.json", "vectors-big-identifier.json"):
            path = os.path.join(here, "vectors", name, fname)
            with open(path) as f:
                v = json.load(f)
            inp = v["inputs"]
            pk_enc = H(inp["verifying_key_key"])
            msg = H(inp["message"])
            shares = {int(p["identifier"]): s.de_scalar(H(p["participant_share"])) for p in inp["participant_shares"]}
            signers = []
            for o in v["round_one_outputs"]["outputs"]:
                i = int(o["identifier"])
                signers.append(dict(id=i, share=shares[i], hr=H(o["hiding_nonce_randomness"]), br=H(o["binding_nonce_randomness"])))
            # group key / shares consistency (secret sharing part of the vectors)
            sk = s.de_scalar(H(inp["group_secret_key"]))
            if name != "secp256k1-tr":
                check(s.ser_elem(s.base(sk)) == pk_enc, name + " group key")
            coeffs = [sk] + [s.de_scalar(H(c)) for c in inp["share_polynomial_coefficients"]]
            for i, sh in shares.items():
                val = sum(c * pow(i, k, s.order) for k, c in enumerate(coeffs)) % s.order
                check(val == sh, "%s share of %d" % (name, i))
            res = s.frost_sign(pk_enc, msg, signers)
            byid = {int.from_bytes(H(x["id"]), "little" if s.le else "big"): x for x in res["signers"]}
            for o in v["round_one_outputs"]["outputs"]:
                r = byid[int(o["identifier"])]
                for k_v, k_r in (
                    ("hiding_nonce", "hiding_nonce"),
                    ("binding_nonce", "binding_nonce"),
                    ("hiding_nonce_commitment", "hiding_commitment"),
                    ("binding_nonce_commitment", "binding_commitment"),
                    ("binding_factor_input", "binding_factor_input"),
                    ("binding_factor", "binding_factor"),
                ):
                    check(o[k_v] == r[k_r], "%s/%s %s of %s" % (name, fname, k_v, o["identifier"]))
            for o in v["round_two_outputs"]["outputs"]:
                check(o["sig_share"] == byid[int(o["identifier"])]["sig_share"], "%s/%s sig_share %s" % (name, fname, o["identifier"]))
            check(v["final_output"]["sig"] == res["signature"], "%s/%s final signature" % (name, fname))
            check(s.verify(pk_enc, msg, H(res["signature"])), "%s/%s verifies" % (name, fname))
            check(not s.verify(pk_enc, msg + b"!", H(res["signature"])), "%s/%s wrong message rejected" % (name, fname))
            # element decode/encode round trip on the vector's commitments
            for x in res["signers"]:
                for k in ("hiding_commitment", "binding_commitment"):
                    P = s.de_elem(H(x[k]))
                    check(P is not None and s.ser_elem(P).hex() == x[k], "%s element round trip" % name)
        # catalogue sanity: every non-ok entry is rejected, every ok entry accepted, by the reference itself
        for what, kind, b in catalog(s):
            dec = s.de_scalar(b) if what == "scalar" else s.de_elem(b)
            if kind.startswith("ok:"):
                check(dec is not None, "%s catalogue %s %s must decode" % (name, what, kind))
            else:
                check(dec is None, "%s catalogue %s %s must be rejected" % (name, what, kind))
    # single signer round trips
    for name, s in SUITES.items():
        pk, sig = s.single_sign(12345, b"m", b"r" * 32)
        check(s.verify(pk, b"m", sig), name + " single sign/verify")
    if verbose:
        print("frostref selftest ok: %d checks" % n_checked)
    return n_checked


if __name__ == "__main__":
    if "--selftest" in sys.argv:
        selftest()
    elif "--serve" in sys.argv:
        serve()
    else:
        print(__doc__)
