//! Pipe to the independent Python reference (`/verif/ref/frostref.py --serve`), one persistent
//! process per worker thread, JSON lines in both directions.

use crate::engine::{inconclusive, Failure, VERIF_DIR};
use serde_json::Value;
use std::io::{BufRead, BufReader, Write};
use std::process::{Child, ChildStdin, ChildStdout, Command, Stdio};

pub struct PyProc {
    child: Child,
    stdin: ChildStdin,
    stdout: BufReader<ChildStdout>,
}

#[derive(Default)]
pub struct PySlot {
    proc_: Option<PyProc>,
    pub calls: u64,
}

pub fn python_exe() -> Option<String> {
    if let Ok(p) = std::env::var("VERIF_PYTHON") {
        return Some(p);
    }
    for cand in ["/usr/bin/python3", "python3", "python3-vt"] {
        let ok = Command::new(cand)
            .arg("-c")
            .arg("import hashlib,json,sys; hashlib.shake_256(b'').digest(1)")
            .stdout(Stdio::null())
            .stderr(Stdio::null())
            .status()
            .map(|s| s.success())
            .unwrap_or(false);
        if ok {
            return Some(cand.to_string());
        }
    }
    None
}

impl PySlot {
    fn ensure(&mut self) -> Result<&mut PyProc, Failure> {
        if self.proc_.is_none() {
            let exe = python_exe().ok_or_else(|| inconclusive("no usable python3 found for the reference oracle"))?;
            let mut child = Command::new(exe)
                .arg(format!("{VERIF_DIR}/ref/frostref.py"))
                .arg("--serve")
                .stdin(Stdio::piped())
                .stdout(Stdio::piped())
                .stderr(Stdio::inherit())
                .spawn()
                .map_err(|e| inconclusive(format!("cannot start reference: {e}")))?;
            let stdin = child.stdin.take().unwrap();
            let stdout = BufReader::new(child.stdout.take().unwrap());
            self.proc_ = Some(PyProc { child, stdin, stdout });
        }
        Ok(self.proc_.as_mut().unwrap())
    }

    /// One request/response round trip. Any transport problem is *inconclusive*, never a violation.
    pub fn call(&mut self, req: &Value) -> Result<Value, Failure> {
        self.calls += 1;
        let p = self.ensure()?;
        let line = serde_json::to_string(req).unwrap();
        p.stdin
            .write_all(line.as_bytes())
            .and_then(|_| p.stdin.write_all(b"\n"))
            .and_then(|_| p.stdin.flush())
            .map_err(|e| inconclusive(format!("reference pipe write: {e}")))?;
        let mut resp = String::new();
        let n = p.stdout.read_line(&mut resp).map_err(|e| inconclusive(format!("reference pipe read: {e}")))?;
        if n == 0 {
            self.proc_ = None;
            return Err(inconclusive("reference process closed the pipe"));
        }
        let v: Value = serde_json::from_str(&resp).map_err(|e| inconclusive(format!("reference reply not JSON: {e}: {resp}")))?;
        if let Some(err) = v.get("error") {
            return Err(inconclusive(format!("reference error: {err} for request {}", truncate(&line, 400))));
        }
        Ok(v)
    }

    pub fn shutdown(&mut self) {
        if let Some(mut p) = self.proc_.take() {
            drop(p.stdin);
            let _ = p.child.wait();
        }
    }
}

fn truncate(s: &str, n: usize) -> String {
    if s.len() <= n { s.to_string() } else { format!("{}…", &s[..n]) }
}

impl Drop for PySlot {
    fn drop(&mut self) {
        self.shutdown();
    }
}
