use fv::engine::{self, Tier};
use fv::props;
use fv::suites::SuiteId;

fn usage() -> ! {
    eprintln!("usage: fv run <Cxx> <quick|thorough> [suite] | fv replay <file>");
    std::process::exit(2);
}

macro_rules! with_prop {
    ($id:expr, $p:ident => $body:expr) => {
        match $id {
            "C01" => { let $p = &props::c01::C01; $body }
            "C02" => { let $p = &props::c02::C02; $body }
            "C03" => { let $p = &props::c03::C03; $body }
            "C04" => { let $p = &props::c04::C04; $body }
            "C05" => { let $p = &props::c05::C05; $body }
            "C06" => { let $p = &props::c06::C06; $body }
            "C07" => { let $p = &props::c07::C07; $body }
            "C08" => { let $p = &props::c08::C08; $body }
            "C09" => { let $p = &props::c09::C09; $body }
            "C10" => { let $p = &props::c10::C10; $body }
            "C11" => { let $p = &props::c11::C11; $body }
            "C12" => { let $p = &props::c12::C12; $body }
            "C13" => { let $p = &props::c13::C13; $body }
            "C14" => { let $p = &props::c14::C14; $body }
            "C15" => { let $p = &props::c15::C15; $body }
            "C16" => { let $p = &props::c16::C16; $body }
            "C17" => { let $p = &props::c17::C17; $body }
            "C18" => { let $p = &props::c18::C18; $body }
            "C19" => { let $p = &props::c19::C19; $body }
            "C20" => { let $p = &props::c20::C20; $body }
            _ => { eprintln!("unknown property {}", $id); std::process::exit(2); }
        }
    };
}

fn main() {
    engine::install_panic_hook();
    let args: Vec<String> = std::env::args().collect();
    if args.len() < 3 {
        usage();
    }
    let seed: u64 = std::env::var("VERIF_SEED").ok().and_then(|s| s.trim().parse::<i128>().ok()).map(|v| v as u64).unwrap_or(0);
    match args[1].as_str() {
        "run" => {
            if args.len() < 4 {
                usage();
            }
            let tier = match std::env::var("VERIF_TIER").ok().as_deref().filter(|_| false).unwrap_or(args[3].as_str()) {
                "quick" => Tier::Quick,
                "thorough" => Tier::Thorough,
                _ => usage(),
            };
            let only = args.get(4).and_then(|s| SuiteId::from_name(s));
            let id = args[2].as_str();
            let code = with_prop!(id, p => engine::main_run(p, tier, seed, only));
            std::process::exit(code);
        }
        "required" => {
            // print the required labels of a property (tooling: compare with observed counts)
            use fv::engine::Property;
            let id = args[2].as_str();
            let tier = if args.get(3).map(|s| s.as_str()) == Some("thorough") { Tier::Thorough } else { Tier::Quick };
            with_prop!(id, p => for (l, m) in p.required_labels(tier) {
                println!("{l}\t{m}");
            });
            std::process::exit(0);
        }
        "gen-corpus" => {
            // deterministic seed corpus for the fuzz targets and the C14 corpus-replay stage
            let root = args.get(2).cloned().unwrap_or_else(|| "/verif/corpus".to_string());
            let _ = std::fs::create_dir_all(format!("{root}/decode"));
            let _ = std::fs::create_dir_all(format!("{root}/proto"));
            let mut n = 0;
            for (si, s) in fv::suites::ALL_SUITES.iter().enumerate() {
                for (sel, bytes) in fv::fuzz_entry::corpus_of(*s) {
                    let mut d = vec![si as u8, sel];
                    d.extend_from_slice(&bytes);
                    std::fs::write(format!("{root}/decode/{}-{:03}.bin", s.name(), sel), d).unwrap();
                    n += 1;
                }
                for e in 0..fv::fuzz_entry::N_ENTRIES {
                    for w in 0..2u8 {
                        let mut sm = fv::tape::Sm(((si as u64) << 16) | ((e as u64) << 8) | w as u64);
                        let mut d = vec![si as u8, w, e];
                        d.extend(sm.bytes(24 + (e as usize % 5) * 8));
                        std::fs::write(format!("{root}/proto/{}-{:02}-{}.bin", s.name(), e, w), d).unwrap();
                        n += 1;
                    }
                }
            }
            println!("wrote {n} corpus files under {root}");
            std::process::exit(0);
        }
        "c16-fresh" => {
            std::process::exit(props::c16::fresh_child(&args[2..]));
        }
        "c13-restart" => {
            std::process::exit(props::c13_restart::child_main(&args[2..]));
        }
        "replay" => {
            let text = std::fs::read_to_string(&args[2]).unwrap_or_else(|e| {
                eprintln!("cannot read {}: {e}", args[2]);
                std::process::exit(2)
            });
            let body: serde_json::Value = serde_json::from_str(&text).unwrap_or_else(|e| {
                eprintln!("replay file is not JSON: {e}");
                std::process::exit(2)
            });
            let id = body["property"].as_str().unwrap_or("").to_string();
            let code = with_prop!(id.as_str(), p => engine::main_replay(p, &body, &args[2]));
            std::process::exit(code);
        }
        _ => usage(),
    }
}
