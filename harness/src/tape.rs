//! Deterministic, recording random source handed to every RNG-taking library entry point.
//!
//! The tape is a *byte stream*: byte `i` of the stream is a pure function of the tape
//! description and `i`. Every draw (fill_bytes / next_u32 / next_u64) consumes the next
//! bytes of the stream and is logged, so a property can (a) replay the very same randomness,
//! (b) know which stream bytes each library call consumed and (c) build a second tape that
//! differs from the first in a chosen byte range only.

use core::convert::Infallible;
use rand_core::{TryCryptoRng, TryRng};
use serde::{Deserialize, Serialize};

#[inline]
fn splitmix(mut z: u64) -> u64 {
    z = z.wrapping_add(0x9E37_79B9_7F4A_7C15);
    z = (z ^ (z >> 30)).wrapping_mul(0xBF58_476D_1CE4_E5B9);
    z = (z ^ (z >> 27)).wrapping_mul(0x94D0_49BB_1331_11EB);
    z ^ (z >> 31)
}

/// byte `i` of the pseudo-random stream with seed `seed`
#[inline]
pub fn prf_byte(seed: u64, i: u64) -> u8 {
    let block = splitmix(seed ^ splitmix((i >> 3).wrapping_mul(0xD6E8_FEB8_6659_FD93)));
    (block >> ((i & 7) * 8)) as u8
}

/// Description of a tape (plain data; part of generated cases).
#[derive(Clone, Debug, Serialize, Deserialize, PartialEq, Eq)]
pub enum TapeSpec {
    /// pseudo-random stream
    Random(u64),
    /// every byte equal (never 0x00 / 0xff in generated cases: rejection samplers must terminate)
    Constant(u8),
    /// pseudo-random block of `period` bytes repeated for ever
    Periodic { period: u32, seed: u64 },
    /// `base`, except that bytes in [start, start+len) come from another random stream
    Perturb { base: Box<TapeSpec>, start: u64, len: u64, seed: u64 },
    /// `base`, except that every byte in [start, start+len) is `byte` (extreme source output, e.g. 0xff: a
    /// candidate above the group order for rejection-sampling fields)
    Force { base: Box<TapeSpec>, start: u64, len: u64, byte: u8 },
}

impl TapeSpec {
    pub fn byte(&self, i: u64) -> u8 {
        match self {
            TapeSpec::Random(s) => prf_byte(*s, i),
            TapeSpec::Constant(b) => *b,
            TapeSpec::Periodic { period, seed } => prf_byte(*seed, i % (*period).max(1) as u64),
            TapeSpec::Perturb { base, start, len, seed } => {
                if i >= *start && i < start + len {
                    // guaranteed different from base in every byte
                    let b = base.byte(i);
                    let d = prf_byte(*seed ^ 0xA5A5_5A5A_F00D_BEEF, i);
                    if d == b { b.wrapping_add(1) } else { d }
                } else {
                    base.byte(i)
                }
            }
            TapeSpec::Force { base, start, len, byte } => {
                if i >= *start && i < start + len {
                    *byte
                } else {
                    base.byte(i)
                }
            }
        }
    }
    pub fn force(&self, start: u64, len: u64, byte: u8) -> TapeSpec {
        TapeSpec::Force { base: Box::new(self.clone()), start, len, byte }
    }
    pub fn perturb(&self, start: u64, len: u64, seed: u64) -> TapeSpec {
        TapeSpec::Perturb { base: Box::new(self.clone()), start, len, seed }
    }
}

#[derive(Clone, Copy, Debug, PartialEq, Eq)]
pub enum DrawKind {
    Fill,
    U32,
    U64,
}

#[derive(Clone, Debug)]
pub struct Draw {
    pub kind: DrawKind,
    pub offset: u64,
    pub len: u64,
}

/// The RNG handed to the library.
pub struct Tape {
    pub spec: TapeSpec,
    pub pos: u64,
    pub log: Vec<Draw>,
    /// hard cap on consumed bytes: a runaway rejection loop becomes a panic that the
    /// engine reports as *inconclusive* (exit 2), never as a violation.
    pub limit: u64,
}

pub const TAPE_RUNAWAY: &str = "fv-tape-runaway";

impl Tape {
    pub fn new(spec: TapeSpec) -> Self {
        Tape { spec, pos: 0, log: Vec::new(), limit: 64 << 20 }
    }
    pub fn random(seed: u64) -> Self {
        Self::new(TapeSpec::Random(seed))
    }
    fn take(&mut self, dst: &mut [u8], kind: DrawKind) {
        if self.pos + dst.len() as u64 > self.limit {
            panic!("{}", TAPE_RUNAWAY);
        }
        for (k, b) in dst.iter_mut().enumerate() {
            *b = self.spec.byte(self.pos + k as u64);
        }
        self.log.push(Draw { kind, offset: self.pos, len: dst.len() as u64 });
        self.pos += dst.len() as u64;
    }
    /// bytes [start, start+len) of the stream (without consuming)
    pub fn peek(&self, start: u64, len: u64) -> Vec<u8> {
        (start..start + len).map(|i| self.spec.byte(i)).collect()
    }
    pub fn consumed(&self) -> u64 {
        self.pos
    }
}

impl TryRng for Tape {
    type Error = Infallible;
    fn try_next_u32(&mut self) -> Result<u32, Infallible> {
        let mut b = [0u8; 4];
        self.take(&mut b, DrawKind::U32);
        Ok(u32::from_le_bytes(b))
    }
    fn try_next_u64(&mut self) -> Result<u64, Infallible> {
        let mut b = [0u8; 8];
        self.take(&mut b, DrawKind::U64);
        Ok(u64::from_le_bytes(b))
    }
    fn try_fill_bytes(&mut self, dst: &mut [u8]) -> Result<(), Infallible> {
        self.take(dst, DrawKind::Fill);
        Ok(())
    }
}
impl TryCryptoRng for Tape {}

/// Cheap deterministic generator for the harness's own choices *derived from a case seed*
/// (never from OS entropy): used when an interpreter needs many values from one u64 seed.
#[derive(Clone)]
pub struct Sm(pub u64);
impl Sm {
    pub fn next(&mut self) -> u64 {
        self.0 = self.0.wrapping_add(0x9E37_79B9_7F4A_7C15);
        splitmix(self.0)
    }
    pub fn below(&mut self, n: u64) -> u64 {
        if n == 0 { 0 } else { self.next() % n }
    }
    pub fn bytes(&mut self, n: usize) -> Vec<u8> {
        let mut v = Vec::with_capacity(n + 8);
        while v.len() < n {
            v.extend_from_slice(&self.next().to_le_bytes());
        }
        v.truncate(n);
        v
    }
    pub fn fork(&mut self) -> Sm {
        Sm(self.next())
    }
}
