//! fv — property-based verification harness for ZcashFoundation/frost (see /verif/DESIGN.md)
#![allow(clippy::type_complexity, clippy::too_many_arguments)]
pub mod common;
pub mod engine;
pub mod fuzz_entry;
pub mod pyref;
pub mod suites;
pub mod wrappers;
pub mod tape;
pub mod props;
pub mod spy_alloc;

#[global_allocator]
static GLOBAL: spy_alloc::Spy = spy_alloc::Spy;
