//! Bodies of the fuzz targets (shared by the libFuzzer wrappers in /verif/fuzz and by the C12/C14
//! checks, which run them in-process under `catch_unwind`).
//!
//! * `decode(data)`: byte 0 selects the suite, byte 1 the wire type and encoding, the rest is the
//!   candidate encoding. Oracle: no panic, and the C12 relations for whatever is accepted.
//! * `proto(data)`: structure-aware. The bytes are decoded into a *mutation script* that is applied to
//!   honestly generated, cached transcripts; the mutated peer material is fed to every protocol entry
//!   point. The caller's own secret state stays honest. Oracle: no panic; Ok(signature) verifies;
//!   DKG Ok is internally consistent.
//!
//! Violations of the oracles are reported by panicking with a message that starts with `FV-ORACLE`.

use crate::common::*;
use crate::dispatch;
use crate::suites::*;
use crate::tape::Tape;
use frost_core as frost;
use frost_core::keys::dkg::{self, round1, round2};
use frost_core::keys::refresh;
use frost_core::keys::repairable::{repair_share_part1, repair_share_part2, repair_share_part3, Delta, Sigma};
use frost_core::keys::{CoefficientCommitment, KeyPackage, PublicKeyPackage, SecretShare, SigningShare, VerifiableSecretSharingCommitment, VerifyingShare};
use frost_core::round1::{Nonce, NonceCommitment, SigningCommitments, SigningNonces};
use frost_core::round2::SignatureShare;
use frost_core::{CheaterDetection, Signature, SigningKey, SigningPackage, VerifyingKey};
use frost_rerandomized::{self as rr, RandomizedParams, Randomizer};
use std::collections::{BTreeMap, BTreeSet};
use std::sync::OnceLock;

pub const N_TYPES: u8 = 24;
pub const TYPE_NAMES: [&str; 24] = [
    "Identifier", "SigningShare", "VerifyingShare", "VerifyingKey", "SigningKey", "Nonce", "NonceCommitment", "CoefficientCommitment",
    "VSSCommitment-whole", "SignatureShare", "Signature", "Delta", "Sigma", "Randomizer", "SigningNonces", "SigningCommitments",
    "SigningPackage", "SecretShare", "KeyPackage", "PublicKeyPackage", "dkg-round1-Package", "dkg-round1-SecretPackage",
    "dkg-round2-Package", "dkg-round2-SecretPackage",
];

fn oracle(cond: bool, what: &str) {
    if !cond {
        panic!("FV-ORACLE {what}");
    }
}

// ---------------------------------------------------------------------------------------------
// decode

pub fn decode(data: &[u8]) {
    if data.len() < 2 {
        return;
    }
    let suite = ALL_SUITES[(data[0] % 6) as usize];
    dispatch!(suite, decode_one(data[1], &data[2..]))
}

macro_rules! prim_infallible {
    ($T:ty, $b:expr, $json:expr, $name:expr) => {{
        if $json {
            if let Ok(v) = serde_json::from_slice::<$T>($b) {
                let s = serde_json::to_vec(&v).expect("re-encode");
                let v2 = serde_json::from_slice::<$T>(&s).expect("FV-ORACLE own JSON does not decode");
                oracle(v2 == v, concat!($name, ": JSON round trip changes the value"));
            }
        } else if let Ok(v) = <$T>::deserialize($b) {
            oracle(v.serialize() == $b, concat!($name, ": accepted bytes do not re-encode to themselves"));
        }
    }};
}
macro_rules! prim_fallible {
    ($T:ty, $b:expr, $json:expr, $name:expr) => {{
        if $json {
            if let Ok(v) = serde_json::from_slice::<$T>($b) {
                let s = serde_json::to_vec(&v).expect("FV-ORACLE accepted value does not encode");
                let v2 = serde_json::from_slice::<$T>(&s).expect("FV-ORACLE own JSON does not decode");
                oracle(v2 == v, concat!($name, ": JSON round trip changes the value"));
            }
        } else if let Ok(v) = <$T>::deserialize($b) {
            let re = v.serialize().expect("FV-ORACLE accepted value does not encode");
            oracle(re == $b, concat!($name, ": accepted bytes do not re-encode to themselves"));
        }
    }};
}
macro_rules! pkg {
    ($T:ty, $b:expr, $json:expr, $name:expr) => {{
        if $json {
            if let Ok(v) = serde_json::from_slice::<$T>($b) {
                let s = serde_json::to_vec(&v).expect("FV-ORACLE accepted value does not encode");
                let v2 = serde_json::from_slice::<$T>(&s).expect("FV-ORACLE own JSON does not decode");
                oracle(v2 == v, concat!($name, ": JSON round trip changes the value"));
            }
        } else if let Ok(v) = <$T>::deserialize($b) {
            let re = v.serialize().expect("FV-ORACLE accepted value does not encode");
            let v2 = <$T>::deserialize(&re).expect("FV-ORACLE own encoding does not decode");
            oracle(v2 == v, concat!($name, ": binary round trip changes the value"));
        }
    }};
}

pub fn decode_one<C: Suite>(sel: u8, b: &[u8]) {
    let json = sel >= 128;
    match (sel & 0x7f) % N_TYPES {
        0 => prim_infallible!(Id<C>, b, json, "Identifier"),
        1 => prim_infallible!(SigningShare<C>, b, json, "SigningShare"),
        2 => prim_fallible!(VerifyingShare<C>, b, json, "VerifyingShare"),
        3 => prim_fallible!(VerifyingKey<C>, b, json, "VerifyingKey"),
        4 => {
            if let Ok(v) = SigningKey::<C>::deserialize(b) {
                oracle(v.serialize() == b, "SigningKey: accepted bytes do not re-encode to themselves");
            }
        }
        5 => prim_infallible!(Nonce<C>, b, json, "Nonce"),
        6 => prim_fallible!(NonceCommitment<C>, b, json, "NonceCommitment"),
        7 => prim_fallible!(CoefficientCommitment<C>, b, json, "CoefficientCommitment"),
        8 => {
            if json {
                let _ = serde_json::from_slice::<VerifiableSecretSharingCommitment<C>>(b);
            } else if let Ok(v) = VerifiableSecretSharingCommitment::<C>::deserialize_whole(b) {
                oracle(v.serialize_whole().expect("FV-ORACLE accepted commitment does not encode") == b, "VSS commitment: not canonical");
            }
        }
        9 => {
            if json {
                let _ = serde_json::from_slice::<SignatureShare<C>>(b);
            } else if let Ok(v) = SignatureShare::<C>::deserialize(b) {
                oracle(v.serialize() == b, "SignatureShare: accepted bytes do not re-encode to themselves");
            }
        }
        10 => {
            if json {
                let _ = serde_json::from_slice::<Signature<C>>(b);
            } else if let Ok(v) = Signature::<C>::deserialize(b) {
                oracle(v.serialize().expect("FV-ORACLE accepted signature does not encode") == b, "Signature: accepted bytes do not re-encode to themselves");
            }
        }
        11 => prim_infallible!(Delta<C>, b, json, "Delta"),
        12 => prim_infallible!(Sigma<C>, b, json, "Sigma"),
        13 => prim_infallible!(Randomizer<C>, b, json, "Randomizer"),
        14 => pkg!(SigningNonces<C>, b, json, "SigningNonces"),
        15 => pkg!(SigningCommitments<C>, b, json, "SigningCommitments"),
        16 => pkg!(SigningPackage<C>, b, json, "SigningPackage"),
        17 => pkg!(SecretShare<C>, b, json, "SecretShare"),
        18 => pkg!(KeyPackage<C>, b, json, "KeyPackage"),
        19 => pkg!(PublicKeyPackage<C>, b, json, "PublicKeyPackage"),
        20 => pkg!(round1::Package<C>, b, json, "dkg round1 Package"),
        21 => pkg!(round1::SecretPackage<C>, b, json, "dkg round1 SecretPackage"),
        22 => pkg!(round2::Package<C>, b, json, "dkg round2 Package"),
        _ => pkg!(round2::SecretPackage<C>, b, json, "dkg round2 SecretPackage"),
    }
}

// ---------------------------------------------------------------------------------------------
// cached honest transcripts (immutable; no state is kept between iterations)

pub struct World<C: Suite> {
    pub shape: Shape,
    pub keys: Keys<C>,
    pub a: Session<C>,
    pub b: Session<C>,
    pub dkg_a: DkgRun<C>,
    pub dkg_b: DkgRun<C>,
    pub refresh: crate::props::c10::DkgRefresh<C>,
    pub rshares: Vec<SecretShare<C>>,
    pub deltas: BTreeMap<Id<C>, Delta<C>>,
    pub outsider: Id<C>,
    pub sk: SigningKey<C>,
}

fn build_world<C: Suite>(shape: Shape, seed: u64) -> World<C> {
    let ids = IdSpec { style: IdStyle::Mixed, seed };
    let keys = dealer_keys::<C>(shape, ids, KeySource::Dealer, seed, "world").expect("world keys");
    let signers: Vec<Id<C>> = keys.ids[..shape.t as usize].to_vec();
    let a = run_session::<C>(&keys.kps, &signers, b"message A", seed ^ 1, "world").expect("session");
    let b = run_session::<C>(&keys.kps, &signers, b"message B", seed ^ 2, "world").expect("session");
    let dkg_a = dkg_rounds::<C>(shape, &keys.ids, seed ^ 3, "world").expect("dkg");
    let dkg_b = dkg_rounds::<C>(shape, &keys.ids, seed ^ 4, "world").expect("dkg");
    let refresh = crate::props::c10::dkg_refresh_rounds::<C>(&keys.ids, shape.t, seed ^ 5, "world").expect("refresh");
    let (rshares, _) = refresh::compute_refreshing_shares::<C, _>(keys.pubkeys.clone(), &keys.ids, &mut Tape::random(seed ^ 6)).expect("refreshing shares");
    let helpers: Vec<Id<C>> = keys.ids[..shape.t as usize].to_vec();
    let target = keys.ids[shape.n as usize - 1];
    let deltas = repair_share_part1::<C, _>(&helpers, &keys.kps[&helpers[0]], &mut Tape::random(seed ^ 7), target).expect("repair");
    let outsider = fresh_id::<C>(&keys.ids, IdSpec { style: IdStyle::Derived, seed: seed ^ 8 });
    let sk = SigningKey::<C>::new(&mut Tape::random(seed ^ 9));
    World { shape, keys, a, b, dkg_a, dkg_b, refresh, rshares, deltas, outsider, sk }
}

pub trait Worlds: Suite {
    fn worlds() -> &'static [World<Self>; 2];
}
macro_rules! impl_worlds {
    ($($T:ty),*) => {$(
        impl Worlds for $T {
            fn worlds() -> &'static [World<Self>; 2] {
                static W: OnceLock<[World<$T>; 2]> = OnceLock::new();
                W.get_or_init(|| [build_world::<$T>(Shape { n: 3, t: 2 }, 0x77), build_world::<$T>(Shape { n: 4, t: 3 }, 0x78)])
            }
        }
    )*};
}
impl_worlds!(
    frost_ed25519::Ed25519Sha512,
    frost_ristretto255::Ristretto255Sha512,
    frost_ed448::Ed448Shake256,
    frost_p256::P256Sha256,
    frost_secp256k1::Secp256K1Sha256,
    frost_secp256k1_tr::Secp256K1Sha256TR
);

// ---------------------------------------------------------------------------------------------
// script decoding

pub struct Cur<'a> {
    d: &'a [u8],
    p: usize,
}
impl<'a> Cur<'a> {
    pub fn new(d: &'a [u8]) -> Self {
        Cur { d, p: 0 }
    }
    pub fn u8(&mut self) -> u8 {
        let v = self.d.get(self.p).copied().unwrap_or(0);
        self.p += 1;
        v
    }
    pub fn below(&mut self, n: usize) -> usize {
        if n == 0 { 0 } else { self.u8() as usize % n }
    }
    pub fn bytes(&mut self, n: usize) -> Vec<u8> {
        let mut v = vec![0u8; n];
        for b in v.iter_mut() {
            *b = self.u8();
        }
        v
    }
    pub fn done(&self) -> bool {
        self.p >= self.d.len()
    }
}

/// attacker-chosen but well-typed values decoded from the script
fn any_scalar<C: Suite>(c: &mut Cur) -> Sc<C> {
    match c.below(5) {
        0 => zero::<C>(),
        1 => one::<C>(),
        2 => neg::<C>(one::<C>()),
        3 => {
            let b = c.bytes(sc_len::<C>());
            sc_from_bytes::<C>(&b).unwrap_or_else(|| sc_u64::<C>(c.u8() as u64))
        }
        _ => sc_u64::<C>(u64::from_le_bytes(c.bytes(8).try_into().unwrap())),
    }
}
fn any_element<C: Suite>(c: &mut Cur, allow_identity: bool) -> El<C> {
    match c.below(4) {
        0 if allow_identity => ident::<C>(),
        1 => gen_::<C>(),
        2 => {
            let b = c.bytes(el_len::<C>());
            el_from_bytes::<C>(&b).unwrap_or_else(|| gen_::<C>() * sc_u64::<C>(3))
        }
        _ => gen_::<C>() * any_scalar::<C>(c),
    }
}
fn any_id<C: Suite>(c: &mut Cur, w: &World<C>) -> Id<C> {
    match c.below(4) {
        0 => w.outsider,
        1 => Id::<C>::new(any_scalar::<C>(c)).unwrap_or(w.outsider),
        _ => w.keys.ids[c.below(w.keys.ids.len())],
    }
}
fn any_commitment<C: Suite>(c: &mut Cur, w: &World<C>, len_hint: usize) -> VerifiableSecretSharingCommitment<C> {
    let len = match c.below(8) {
        0 => 0,
        1 => 1,
        2 => w.shape.t as usize - 1,
        3 => w.shape.t as usize + 1,
        4 => 300,
        _ => len_hint,
    };
    let mut v = Vec::with_capacity(len);
    let base = any_element::<C>(c, true);
    for i in 0..len {
        // identity entries are representable in memory (refresh uses them)
        v.push(CoefficientCommitment::new(if i % 7 == 3 { ident::<C>() } else { base + gen_::<C>() * sc_u64::<C>(i as u64) }));
    }
    VerifiableSecretSharingCommitment::new(v)
}

/// generic map mutator: a list of ops read from the script
fn mutate_map<C: Suite, V: Clone>(c: &mut Cur, w: &World<C>, m: &mut BTreeMap<Id<C>, V>, pool: &[V], mut fresh: impl FnMut(&mut Cur) -> Option<V>) {
    let ops = c.below(5);
    for _ in 0..ops {
        let keys: Vec<Id<C>> = m.keys().copied().collect();
        match c.below(8) {
            0 => {
                // drop
                if !keys.is_empty() {
                    m.remove(&keys[c.below(keys.len())]);
                }
            }
            1 => {
                // swap two entries
                if keys.len() >= 2 {
                    let (i, j) = (c.below(keys.len()), c.below(keys.len()));
                    let (a, b) = (m[&keys[i]].clone(), m[&keys[j]].clone());
                    m.insert(keys[i], b);
                    m.insert(keys[j], a);
                }
            }
            2 => {
                // re-key an entry
                if !keys.is_empty() {
                    let k = keys[c.below(keys.len())];
                    let v = m.remove(&k).unwrap();
                    m.insert(any_id::<C>(c, w), v);
                }
            }
            3 => {
                // entry from the pool (another session / run)
                if !pool.is_empty() {
                    let v = pool[c.below(pool.len())].clone();
                    m.insert(any_id::<C>(c, w), v);
                }
            }
            4 => {
                // attacker-chosen value
                if let Some(v) = fresh(c) {
                    m.insert(any_id::<C>(c, w), v);
                }
            }
            5 => m.clear(),
            6 => {
                // oversized: many entries under fresh identifiers
                if let Some(v) = pool.first() {
                    let cnt = 1 + c.below(40);
                    for i in 0..cnt {
                        if let Ok(id) = Id::<C>::new(sc_u64::<C>(1000 + i as u64)) {
                            m.insert(id, v.clone());
                        }
                    }
                }
            }
            _ => {}
        }
    }
}

fn any_pubkeys<C: Suite>(c: &mut Cur, w: &World<C>) -> PublicKeyPackage<C> {
    let mut vs: BTreeMap<Id<C>, VerifyingShare<C>> = w.keys.pubkeys.verifying_shares().clone();
    let pool: Vec<VerifyingShare<C>> = vs.values().copied().collect();
    mutate_map::<C, _>(c, w, &mut vs, &pool, |c| Some(VerifyingShare::new(any_element::<C>(c, true))));
    let vk = match c.below(4) {
        0 => VerifyingKey::new(any_element::<C>(c, true)),
        _ => *w.keys.pubkeys.verifying_key(),
    };
    let min = match c.below(8) {
        0 => None,
        1 => Some(0),
        2 => Some(1),
        3 => Some(65535),
        4 => Some(c.u8() as u16),
        _ => w.keys.pubkeys.min_signers(),
    };
    PublicKeyPackage::new(vs, vk, min)
}

fn any_package<C: Suite>(c: &mut Cur, w: &World<C>) -> SigningPackage<C> {
    let mut comms = w.a.commitments.clone();
    let pool: Vec<SigningCommitments<C>> = w.b.commitments.values().copied().collect();
    mutate_map::<C, _>(c, w, &mut comms, &pool, |c| Some(SigningCommitments::new(NonceCommitment::new(any_element::<C>(c, true)), NonceCommitment::new(any_element::<C>(c, true)))));
    let msg = match c.below(4) {
        0 => vec![],
        1 => w.b.message.clone(),
        2 => {
            let l = c.d.len().min(64);
            c.bytes(l)
        }
        _ => w.a.message.clone(),
    };
    SigningPackage::new(comms, &msg)
}

fn any_shares<C: Suite>(c: &mut Cur, w: &World<C>) -> BTreeMap<Id<C>, SignatureShare<C>> {
    let mut sh = w.a.shares.clone();
    let pool: Vec<SignatureShare<C>> = w.b.shares.values().copied().collect();
    mutate_map::<C, _>(c, w, &mut sh, &pool, |c| SignatureShare::<C>::deserialize(&sc_bytes::<C>(&any_scalar::<C>(c))).ok());
    sh
}

fn any_r1<C: Suite>(c: &mut Cur, w: &World<C>, me: &Id<C>, refresh: bool) -> BTreeMap<Id<C>, round1::Package<C>> {
    let src = if refresh { &w.refresh.r1_pkg } else { &w.dkg_a.r1_pkg };
    let mut m: BTreeMap<Id<C>, round1::Package<C>> = src.iter().filter(|(k, _)| *k != me).map(|(k, v)| (*k, v.clone())).collect();
    let pool: Vec<round1::Package<C>> = w.dkg_b.r1_pkg.values().cloned().chain(w.refresh.r1_pkg.values().cloned()).collect();
    let t = w.shape.t as usize;
    mutate_map::<C, _>(c, w, &mut m, &pool, |c| {
        let comm = any_commitment::<C>(c, w, t);
        Some(round1::Package::new(comm, Signature::new(any_element::<C>(c, true), any_scalar::<C>(c))))
    });
    m
}
fn any_r2<C: Suite>(c: &mut Cur, w: &World<C>, me: &Id<C>, refresh: bool) -> BTreeMap<Id<C>, round2::Package<C>> {
    let src = if refresh { &w.refresh.r2_pkg } else { &w.dkg_a.r2_pkg };
    let mut m: BTreeMap<Id<C>, round2::Package<C>> = src.iter().filter(|(k, _)| *k != me).filter_map(|(k, v)| v.get(me).map(|p| (*k, p.clone()))).collect();
    let pool: Vec<round2::Package<C>> = w.dkg_b.r2_pkg.values().flat_map(|x| x.values().cloned()).collect();
    mutate_map::<C, _>(c, w, &mut m, &pool, |c| Some(round2::Package::new(SigningShare::new(any_scalar::<C>(c)))));
    m
}

// ---------------------------------------------------------------------------------------------
// proto

pub const N_ENTRIES: u8 = 22;
pub const ENTRY_NAMES: [&str; 22] = [
    "sign", "aggregate_custom", "verify_signature_share", "KeyPackage::try_from", "SecretShare::verify", "dkg::part2", "dkg::part3",
    "refresh_share", "refresh_dkg_part2", "refresh_dkg_shares", "compute_refreshing_shares", "repair_share_part1", "repair_share_part2+3",
    "PublicKeyPackage::from_commitment", "PublicKeyPackage::from_dkg_commitments", "reconstruct", "batch", "randomized-sign",
    "randomized-aggregate", "taproot-with-tweak", "VerifyingKey::verify", "regenerate-randomizer",
];

pub fn proto(data: &[u8]) {
    if data.len() < 3 {
        return;
    }
    let suite = ALL_SUITES[(data[0] % 6) as usize];
    dispatch!(suite, proto_one(&data[1..]))
}

pub fn proto_one<C: Worlds>(data: &[u8]) {
    let mut c = Cur::new(data);
    let w = &C::worlds()[c.below(2)];
    let entry = c.u8() % N_ENTRIES;
    let me = w.keys.ids[c.below(w.keys.ids.len())];
    let mode = || -> CheaterDetection {
        CheaterDetection::AllCheaters
    };
    match entry {
        0 => {
            let p = any_package::<C>(&mut c, w);
            let signer = w.a.signers[c.below(w.a.signers.len())];
            let _ = frost::round2::sign(&p, &w.a.nonces[&signer], &w.keys.kps[&signer]);
            let _ = frost::round2::sign(&p, &w.b.nonces[&signer], &w.keys.kps[&signer]);
        }
        1 => {
            let p = any_package::<C>(&mut c, w);
            let sh = any_shares::<C>(&mut c, w);
            let pk = any_pubkeys::<C>(&mut c, w);
            for m in [CheaterDetection::Disabled, CheaterDetection::FirstCheater, mode()] {
                if let Ok(sig) = frost::aggregate_custom(&p, &sh, &pk, m) {
                    oracle(pk.verifying_key().verify(p.message(), &sig).is_ok(), "aggregate returned a signature that does not verify");
                }
            }
        }
        2 => {
            let p = any_package::<C>(&mut c, w);
            let id = any_id::<C>(&mut c, w);
            let vs = VerifyingShare::<C>::new(any_element::<C>(&mut c, true));
            let sh = SignatureShare::<C>::deserialize(&sc_bytes::<C>(&any_scalar::<C>(&mut c))).expect("scalar bytes");
            let vk = VerifyingKey::<C>::new(any_element::<C>(&mut c, true));
            let _ = frost::verify_signature_share(id, &vs, &sh, &p, &vk);
            let _ = frost::verify_signature_share(id, &vs, &sh, &p, w.keys.pubkeys.verifying_key());
        }
        3 | 4 => {
            let t = w.shape.t as usize;
            let ss = SecretShare::<C>::new(any_id::<C>(&mut c, w), SigningShare::new(any_scalar::<C>(&mut c)), any_commitment::<C>(&mut c, w, t));
            if entry == 3 {
                if let Ok(kp) = KeyPackage::try_from(ss) {
                    oracle(kp.verifying_share().to_element() == gen_::<C>() * kp.signing_share().to_scalar(), "KeyPackage::try_from produced an inconsistent package");
                }
            } else {
                let _ = ss.verify();
            }
        }
        5 => {
            let r1 = any_r1::<C>(&mut c, w, &me, false);
            let _ = dkg::part2(w.dkg_a.r1_secret[&me].clone(), &r1);
        }
        6 => {
            let r1 = any_r1::<C>(&mut c, w, &me, false);
            let r2 = any_r2::<C>(&mut c, w, &me, false);
            if let Ok((kp, pk)) = dkg::part3(&w.dkg_a.r2_secret[&me], &r1, &r2) {
                oracle(kp.verifying_share().to_element() == gen_::<C>() * kp.signing_share().to_scalar(), "part3: verifying share != G*share");
                oracle(kp.verifying_key() == pk.verifying_key(), "part3: key package and public package disagree on the group key");
            }
        }
        7 => {
            let t = w.shape.t as usize;
            let base = &w.rshares[c.below(w.rshares.len())];
            let ss = match c.below(3) {
                0 => base.clone(),
                1 => SecretShare::<C>::new(any_id::<C>(&mut c, w), *base.signing_share(), any_commitment::<C>(&mut c, w, t - 1)),
                _ => SecretShare::<C>::new(*base.identifier(), SigningShare::new(any_scalar::<C>(&mut c)), base.commitment().clone()),
            };
            let _ = refresh::refresh_share(ss, &w.keys.kps[&me]);
        }
        8 => {
            let r1 = any_r1::<C>(&mut c, w, &me, true);
            let _ = refresh::refresh_dkg_part2(w.refresh.r1_secret[&me].clone(), &r1);
        }
        9 => {
            let r1 = any_r1::<C>(&mut c, w, &me, true);
            let r2 = any_r2::<C>(&mut c, w, &me, true);
            let pk = any_pubkeys::<C>(&mut c, w);
            let _ = refresh::refresh_dkg_shares(&w.refresh.r2_secret[&me], &r1, &r2, pk, w.keys.kps[&me].clone());
        }
        10 => {
            let pk = any_pubkeys::<C>(&mut c, w);
            let cnt = c.below(8);
            let ids: Vec<Id<C>> = (0..cnt).map(|_| any_id::<C>(&mut c, w)).collect();
            let _ = refresh::compute_refreshing_shares::<C, _>(pk, &ids, &mut Tape::random(1));
        }
        11 => {
            let cnt = c.below(8);
            let helpers: Vec<Id<C>> = (0..cnt).map(|_| any_id::<C>(&mut c, w)).collect();
            let target = any_id::<C>(&mut c, w);
            let _ = repair_share_part1::<C, _>(&helpers, &w.keys.kps[&me], &mut Tape::random(2), target);
        }
        12 => {
            let cnt = c.below(10);
            let ds: Vec<Delta<C>> = (0..cnt).map(|i| if i % 2 == 0 { Delta::new(any_scalar::<C>(&mut c)) } else { *w.deltas.values().next().unwrap() }).collect();
            let s = repair_share_part2::<C>(&ds);
            let sig: Vec<Sigma<C>> = (0..c.below(6)).map(|_| s).collect();
            let pk = any_pubkeys::<C>(&mut c, w);
            if let Ok(kp) = repair_share_part3::<C>(&sig, any_id::<C>(&mut c, w), &pk) {
                oracle(kp.verifying_share().to_element() == gen_::<C>() * kp.signing_share().to_scalar(), "repair part3: verifying share != G*share");
            }
        }
        13 => {
            let t = w.shape.t as usize;
            let cnt = c.below(6);
            let ids: BTreeSet<Id<C>> = (0..cnt).map(|_| any_id::<C>(&mut c, w)).collect();
            let comm = any_commitment::<C>(&mut c, w, t);
            let _ = PublicKeyPackage::<C>::from_commitment(&ids, &comm);
        }
        14 => {
            let t = w.shape.t as usize;
            let cnt = c.below(5);
            let comms: Vec<(Id<C>, VerifiableSecretSharingCommitment<C>)> = (0..cnt).map(|_| (any_id::<C>(&mut c, w), any_commitment::<C>(&mut c, w, t))).collect();
            let m: BTreeMap<Id<C>, &VerifiableSecretSharingCommitment<C>> = comms.iter().map(|(i, v)| (*i, v)).collect();
            let _ = PublicKeyPackage::<C>::from_dkg_commitments(&m);
        }
        15 => {
            let cnt = c.below(6);
            let kps: Vec<KeyPackage<C>> = (0..cnt)
                .map(|_| {
                    let base = &w.keys.kps[&w.keys.ids[c.below(w.keys.ids.len())]];
                    let min = [0u16, 1, 2, 3, 65535][c.below(5)];
                    KeyPackage::new(any_id::<C>(&mut c, w), *base.signing_share(), *base.verifying_share(), *base.verifying_key(), min)
                })
                .collect();
            let _ = frost::keys::reconstruct(&kps);
        }
        16 => {
            let cnt = c.below(6);
            let mut v = frost::batch::Verifier::<C>::new();
            let mut all_ok = cnt > 0;
            for _ in 0..cnt {
                let vk = if c.below(2) == 0 { VerifyingKey::<C>::from(&w.sk) } else { VerifyingKey::new(any_element::<C>(&mut c, true)) };
                let sig = Signature::<C>::new(any_element::<C>(&mut c, true), any_scalar::<C>(&mut c));
                let ml = c.below(8);
                let msg = c.bytes(ml);
                match frost::batch::Item::<C>::new(vk, sig, &msg) {
                    Ok(item) => {
                        all_ok &= vk.verify(&msg, &sig).is_ok();
                        let _ = item.clone().verify_single();
                        v.queue(item);
                    }
                    Err(_) => all_ok = false,
                }
            }
            let r = v.verify(Tape::random(3));
            if all_ok {
                oracle(r.is_ok(), "batch of individually valid items rejected");
            }
        }
        17 => {
            let p = any_package::<C>(&mut c, w);
            let signer = w.a.signers[c.below(w.a.signers.len())];
            let seed_len = [0usize, 1, 16, 32, 57, 64, 200][c.below(7)];
            let seed = c.bytes(seed_len);
            let _ = rr::sign_with_randomizer_seed::<C>(&p, &w.a.nonces[&signer], &w.keys.kps[&signer], &seed);
        }
        18 => {
            let p = any_package::<C>(&mut c, w);
            let sh = any_shares::<C>(&mut c, w);
            let pk = any_pubkeys::<C>(&mut c, w);
            let params = RandomizedParams::<C>::from_randomizer(pk.verifying_key(), Randomizer::from_scalar(any_scalar::<C>(&mut c)));
            if let Ok(sig) = rr::aggregate::<C>(&p, &sh, &pk, &params) {
                oracle(params.randomized_verifying_key().verify(p.message(), &sig).is_ok(), "randomized aggregate returned a signature that does not verify");
            }
        }
        19 => {
            let p = any_package::<C>(&mut c, w);
            let sh = any_shares::<C>(&mut c, w);
            let pk = any_pubkeys::<C>(&mut c, w);
            let root_len = [0usize, 1, 32, 33, 100][c.below(5)];
            let root = c.bytes(root_len);
            let root_opt = if c.below(3) == 0 { None } else { Some(&root[..]) };
            let signer = w.a.signers[c.below(w.a.signers.len())];
            if let Some(r) = C::tr_sign_with_tweak(&p, &w.a.nonces[&signer], &w.keys.kps[&signer], root_opt) {
                let _ = r;
                let _ = C::tr_aggregate_with_tweak(&p, &sh, &pk, root_opt);
                let _ = C::tr_tweak_pubkeys(&pk, root_opt);
            }
        }
        20 => {
            let vk = VerifyingKey::<C>::new(any_element::<C>(&mut c, true));
            let sig = Signature::<C>::new(any_element::<C>(&mut c, true), any_scalar::<C>(&mut c));
            let ml = c.below(16);
            let msg = c.bytes(ml);
            let _ = vk.verify(&msg, &sig);
            let _ = sig.serialize();
            let _ = vk.serialize();
            // identifier derivation from arbitrary bytes and the list form of the VSS commitment decoder
            let dl = c.below(40);
            let d = c.bytes(dl);
            let _ = Id::<C>::derive(&d);
            let cnt = c.below(5);
            let list: Vec<Vec<u8>> = (0..cnt)
                .map(|_| {
                    let l = [0usize, 1, el_len::<C>() - 1, el_len::<C>(), el_len::<C>(), el_len::<C>() + 1][c.below(6)];
                    let mut b = c.bytes(l);
                    if l == el_len::<C>() && c.below(2) == 0 {
                        b = el_bytes::<C>(&gen_::<C>()).unwrap_or_default();
                    }
                    b
                })
                .collect();
            if let Ok(v) = VerifiableSecretSharingCommitment::<C>::deserialize(list.clone()) {
                oracle(v.serialize().ok() == Some(list), "VSS commitment list: accepted encodings do not re-encode to themselves");
            }
        }
        _ => {
            let p = any_package::<C>(&mut c, w);
            let sl = c.below(70);
            let seed = c.bytes(sl);
            let _ = RandomizedParams::<C>::regenerate_from_seed_and_commitments(w.keys.pubkeys.verifying_key(), &seed, p.signing_commitments());
            let _ = Randomizer::<C>::new_from_commitments(Tape::random(4), p.signing_commitments());
        }
    }
}

// ---------------------------------------------------------------------------------------------
// deterministic seed corpus

/// valid encodings of every wire type of the suite: (type selector, bytes)
pub fn corpus<C: Worlds>() -> Vec<(u8, Vec<u8>)> {
    let w = &C::worlds()[1];
    let me = w.keys.ids[0];
    let kp = &w.keys.kps[&me];
    let ss = &w.keys.secret_shares.as_ref().unwrap()[&me];
    let sig = frost::aggregate(&w.a.package, &w.a.shares, &w.keys.pubkeys).expect("aggregate");
    let signer = w.a.signers[0];
    let (rnd, _) = Randomizer::<C>::new_from_commitments(Tape::random(5), w.a.package.signing_commitments()).expect("randomizer");
    let mut v: Vec<(u8, Vec<u8>)> = vec![
        (0, me.serialize()),
        (1, kp.signing_share().serialize()),
        (2, kp.verifying_share().serialize().unwrap()),
        (3, kp.verifying_key().serialize().unwrap()),
        (4, w.sk.serialize()),
        (5, w.a.nonces[&signer].hiding().serialize()),
        (6, w.a.commitments[&signer].hiding().serialize().unwrap()),
        (7, ss.commitment().coefficients()[0].serialize().unwrap()),
        (8, ss.commitment().serialize_whole().unwrap()),
        (9, w.a.shares[&signer].serialize()),
        (10, sig.serialize().unwrap()),
        (11, w.deltas.values().next().unwrap().serialize()),
        (12, repair_share_part2::<C>(&w.deltas.values().copied().collect::<Vec<_>>()).serialize()),
        (13, rnd.serialize()),
        (14, w.a.nonces[&signer].serialize().unwrap()),
        (15, w.a.commitments[&signer].serialize().unwrap()),
        (16, w.a.package.serialize().unwrap()),
        (17, ss.serialize().unwrap()),
        (18, kp.serialize().unwrap()),
        (19, w.keys.pubkeys.serialize().unwrap()),
        (20, w.dkg_a.r1_pkg[&me].serialize().unwrap()),
        (21, w.dkg_a.r1_secret[&me].serialize().unwrap()),
        (22, w.dkg_a.r2_pkg[&me].values().next().unwrap().serialize().unwrap()),
        (23, w.dkg_a.r2_secret[&me].serialize().unwrap()),
    ];
    // JSON forms
    macro_rules! js {
        ($sel:expr, $v:expr) => {
            v.push((128 + $sel, serde_json::to_vec($v).unwrap()));
        };
    }
    js!(0, &me);
    js!(1, kp.signing_share());
    js!(2, kp.verifying_share());
    js!(3, kp.verifying_key());
    js!(5, w.a.nonces[&signer].hiding());
    js!(6, w.a.commitments[&signer].hiding());
    js!(7, &ss.commitment().coefficients()[0]);
    js!(8, ss.commitment());
    js!(9, &w.a.shares[&signer]);
    js!(10, &sig);
    js!(11, w.deltas.values().next().unwrap());
    js!(13, &rnd);
    js!(14, &w.a.nonces[&signer]);
    js!(15, &w.a.commitments[&signer]);
    js!(16, &w.a.package);
    js!(17, ss);
    js!(18, kp);
    js!(19, &w.keys.pubkeys);
    js!(20, &w.dkg_a.r1_pkg[&me]);
    js!(21, &w.dkg_a.r1_secret[&me]);
    js!(22, w.dkg_a.r2_pkg[&me].values().next().unwrap());
    js!(23, &w.dkg_a.r2_secret[&me]);
    v
}

pub fn corpus_of(suite: SuiteId) -> Vec<(u8, Vec<u8>)> {
    fn go<C: Worlds>() -> Vec<(u8, Vec<u8>)> {
        corpus::<C>()
    }
    dispatch!(suite, go())
}
