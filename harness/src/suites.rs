//! The six ciphersuites behind one trait, so every property is written once, generically.

use frost_core::{Ciphersuite, Field, Group};
use frost_rerandomized::RandomizedCiphersuite;
use serde::{Deserialize, Serialize};

pub type Sc<C> = frost_core::Scalar<C>;
pub type El<C> = frost_core::Element<C>;
pub type F<C> = <<C as Ciphersuite>::Group as Group>::Field;
pub type G<C> = <C as Ciphersuite>::Group;

#[derive(Clone, Copy, PartialEq, Eq, Debug, Hash, PartialOrd, Ord, Serialize, Deserialize)]
pub enum SuiteId {
    Ed25519,
    Ristretto255,
    Ed448,
    P256,
    Secp256k1,
    Secp256k1Tr,
}

pub const ALL_SUITES: [SuiteId; 6] = [
    SuiteId::Ed25519,
    SuiteId::Ristretto255,
    SuiteId::Ed448,
    SuiteId::P256,
    SuiteId::Secp256k1,
    SuiteId::Secp256k1Tr,
];

impl SuiteId {
    pub fn name(self) -> &'static str {
        match self {
            SuiteId::Ed25519 => "ed25519",
            SuiteId::Ristretto255 => "ristretto255",
            SuiteId::Ed448 => "ed448",
            SuiteId::P256 => "p256",
            SuiteId::Secp256k1 => "secp256k1",
            SuiteId::Secp256k1Tr => "secp256k1-tr",
        }
    }
    pub fn from_name(s: &str) -> Option<SuiteId> {
        ALL_SUITES.iter().copied().find(|x| x.name() == s)
    }
    pub fn index(self) -> u64 {
        ALL_SUITES.iter().position(|x| *x == self).unwrap() as u64
    }
    /// Ed448 arithmetic is roughly 10x slower than the others; budgets are scaled.
    pub fn slow(self) -> bool {
        self == SuiteId::Ed448
    }
    pub fn taproot(self) -> bool {
        self == SuiteId::Secp256k1Tr
    }
}

/// Run a generic function for the suite named at run time.
#[macro_export]
macro_rules! dispatch {
    ($suite:expr, $f:ident ( $($arg:expr),* )) => {
        match $suite {
            $crate::suites::SuiteId::Ed25519 => $f::<frost_ed25519::Ed25519Sha512>($($arg),*),
            $crate::suites::SuiteId::Ristretto255 => $f::<frost_ristretto255::Ristretto255Sha512>($($arg),*),
            $crate::suites::SuiteId::Ed448 => $f::<frost_ed448::Ed448Shake256>($($arg),*),
            $crate::suites::SuiteId::P256 => $f::<frost_p256::P256Sha256>($($arg),*),
            $crate::suites::SuiteId::Secp256k1 => $f::<frost_secp256k1::Secp256K1Sha256>($($arg),*),
            $crate::suites::SuiteId::Secp256k1Tr => $f::<frost_secp256k1_tr::Secp256K1Sha256TR>($($arg),*),
        }
    };
}

pub trait Suite: RandomizedCiphersuite + crate::wrappers::Wrap {
    const SID: SuiteId;
    /// scalar encoding is little-endian (Edwards/ristretto) or big-endian (SEC1 suites)
    const LE: bool;
    /// An *independent* Rust verifier for the suite's ordinary single-signer scheme, if one
    /// exists in the trusted base: ed25519-dalek `verify_strict` / libsecp256k1 BIP-340.
    /// Returns None when no such verifier is linked (then the Python reference is used).
    fn independent_verify(_vk: &[u8], _msg: &[u8], _sig: &[u8]) -> Option<bool> {
        None
    }
    /// Taproot only: apply the BIP-341 tweak to key / public key packages (library code, used to
    /// *drive* the API; expected values are computed by the reference).
    fn tr_tweak_key_package(
        kp: &frost_core::keys::KeyPackage<Self>,
        _root: Option<&[u8]>,
    ) -> frost_core::keys::KeyPackage<Self> {
        kp.clone()
    }
    fn tr_tweak_pubkeys(
        pk: &frost_core::keys::PublicKeyPackage<Self>,
        _root: Option<&[u8]>,
    ) -> frost_core::keys::PublicKeyPackage<Self> {
        pk.clone()
    }
    /// Taproot only: the `*_with_tweak` entry points of frost-secp256k1-tr
    fn tr_sign_with_tweak(
        _package: &frost_core::SigningPackage<Self>,
        _nonces: &frost_core::round1::SigningNonces<Self>,
        _kp: &frost_core::keys::KeyPackage<Self>,
        _root: Option<&[u8]>,
    ) -> Option<Result<frost_core::round2::SignatureShare<Self>, frost_core::Error<Self>>> {
        None
    }
    fn tr_aggregate_with_tweak(
        _package: &frost_core::SigningPackage<Self>,
        _shares: &std::collections::BTreeMap<frost_core::Identifier<Self>, frost_core::round2::SignatureShare<Self>>,
        _pk: &frost_core::keys::PublicKeyPackage<Self>,
        _root: Option<&[u8]>,
    ) -> Option<Result<frost_core::Signature<Self>, frost_core::Error<Self>>> {
        None
    }
}

impl Suite for frost_ed25519::Ed25519Sha512 {
    const SID: SuiteId = SuiteId::Ed25519;
    const LE: bool = true;
    fn independent_verify(vk: &[u8], msg: &[u8], sig: &[u8]) -> Option<bool> {
        let vk: [u8; 32] = match vk.try_into() {
            Ok(v) => v,
            Err(_) => return Some(false),
        };
        let sig: [u8; 64] = match sig.try_into() {
            Ok(v) => v,
            Err(_) => return Some(false),
        };
        let vk = match ed25519_dalek::VerifyingKey::from_bytes(&vk) {
            Ok(v) => v,
            Err(_) => return Some(false),
        };
        let sig = ed25519_dalek::Signature::from_bytes(&sig);
        Some(vk.verify_strict(msg, &sig).is_ok())
    }
}
impl Suite for frost_ristretto255::Ristretto255Sha512 {
    const SID: SuiteId = SuiteId::Ristretto255;
    const LE: bool = true;
}
impl Suite for frost_ed448::Ed448Shake256 {
    const SID: SuiteId = SuiteId::Ed448;
    const LE: bool = true;
}
impl Suite for frost_p256::P256Sha256 {
    const SID: SuiteId = SuiteId::P256;
    const LE: bool = false;
}
impl Suite for frost_secp256k1::Secp256K1Sha256 {
    const SID: SuiteId = SuiteId::Secp256k1;
    const LE: bool = false;
}
impl Suite for frost_secp256k1_tr::Secp256K1Sha256TR {
    const SID: SuiteId = SuiteId::Secp256k1Tr;
    const LE: bool = false;
    fn independent_verify(vk: &[u8], msg: &[u8], sig: &[u8]) -> Option<bool> {
        // vk: 33-byte SEC1 compressed; BIP-340 uses the x-only key
        if vk.len() != 33 || sig.len() != 64 {
            return Some(false);
        }
        let secp = secp256k1::Secp256k1::verification_only();
        let xonly = match secp256k1::XOnlyPublicKey::from_byte_array(vk[1..33].try_into().unwrap()) {
            Ok(k) => k,
            Err(_) => return Some(false),
        };
        let sig = secp256k1::schnorr::Signature::from_byte_array(sig.try_into().unwrap());
        Some(secp.verify_schnorr(&sig, msg, &xonly).is_ok())
    }
    fn tr_tweak_key_package(
        kp: &frost_core::keys::KeyPackage<Self>,
        root: Option<&[u8]>,
    ) -> frost_core::keys::KeyPackage<Self> {
        use frost_secp256k1_tr::keys::Tweak;
        kp.clone().tweak(root)
    }
    fn tr_tweak_pubkeys(
        pk: &frost_core::keys::PublicKeyPackage<Self>,
        root: Option<&[u8]>,
    ) -> frost_core::keys::PublicKeyPackage<Self> {
        use frost_secp256k1_tr::keys::Tweak;
        pk.clone().tweak(root)
    }
    fn tr_sign_with_tweak(
        package: &frost_core::SigningPackage<Self>,
        nonces: &frost_core::round1::SigningNonces<Self>,
        kp: &frost_core::keys::KeyPackage<Self>,
        root: Option<&[u8]>,
    ) -> Option<Result<frost_core::round2::SignatureShare<Self>, frost_core::Error<Self>>> {
        Some(frost_secp256k1_tr::round2::sign_with_tweak(package, nonces, kp, root))
    }
    fn tr_aggregate_with_tweak(
        package: &frost_core::SigningPackage<Self>,
        shares: &std::collections::BTreeMap<frost_core::Identifier<Self>, frost_core::round2::SignatureShare<Self>>,
        pk: &frost_core::keys::PublicKeyPackage<Self>,
        root: Option<&[u8]>,
    ) -> Option<Result<frost_core::Signature<Self>, frost_core::Error<Self>>> {
        Some(frost_secp256k1_tr::aggregate_with_tweak(package, shares, pk, root))
    }
}

// ---------------------------------------------------------------------------------------------
// small generic algebra helpers (group / field operations of the curve crates are trusted base)

pub fn zero<C: Suite>() -> Sc<C> {
    F::<C>::zero()
}
pub fn one<C: Suite>() -> Sc<C> {
    F::<C>::one()
}
pub fn neg<C: Suite>(x: Sc<C>) -> Sc<C> {
    zero::<C>() - x
}
pub fn sc_u64<C: Suite>(n: u64) -> Sc<C> {
    let mut acc = zero::<C>();
    let one = one::<C>();
    for i in (0..64).rev() {
        acc = acc + acc;
        if (n >> i) & 1 == 1 {
            acc = acc + one;
        }
    }
    acc
}
pub fn sc_bytes<C: Suite>(s: &Sc<C>) -> Vec<u8> {
    F::<C>::serialize(s).as_ref().to_vec()
}
pub fn sc_from_bytes<C: Suite>(b: &[u8]) -> Option<Sc<C>> {
    let ser: <F<C> as Field>::Serialization = b.try_into().ok()?;
    F::<C>::deserialize(&ser).ok()
}
pub fn sc_len<C: Suite>() -> usize {
    sc_bytes::<C>(&zero::<C>()).len()
}
/// a scalar derived from a seed through the tape RNG (uniform, any value)
pub fn sc_rand<C: Suite>(seed: u64) -> Sc<C> {
    let mut t = crate::tape::Tape::random(seed ^ 0x5ca1_ab1e);
    F::<C>::random(&mut t)
}
pub fn sc_rand_nonzero<C: Suite>(seed: u64) -> Sc<C> {
    let mut s = seed;
    loop {
        let x = sc_rand::<C>(s);
        if x != zero::<C>() {
            return x;
        }
        s = s.wrapping_add(1);
    }
}
pub fn gen_<C: Suite>() -> El<C> {
    G::<C>::generator()
}
pub fn ident<C: Suite>() -> El<C> {
    G::<C>::identity()
}
pub fn el_neg<C: Suite>(e: El<C>) -> El<C> {
    ident::<C>() - e
}
pub fn el_bytes<C: Suite>(e: &El<C>) -> Option<Vec<u8>> {
    G::<C>::serialize(e).ok().map(|s| s.as_ref().to_vec())
}
pub fn el_from_bytes<C: Suite>(b: &[u8]) -> Option<El<C>> {
    let ser: <G<C> as Group>::Serialization = b.try_into().ok()?;
    G::<C>::deserialize(&ser).ok()
}
pub fn el_len<C: Suite>() -> usize {
    el_bytes::<C>(&gen_::<C>()).unwrap().len()
}
pub fn el_hex<C: Suite>(e: &El<C>) -> String {
    el_bytes::<C>(e).map(hex::encode).unwrap_or_else(|| "<identity>".into())
}
pub fn sc_hex<C: Suite>(s: &Sc<C>) -> String {
    hex::encode(sc_bytes::<C>(s))
}
/// SEC1 suites: is the Y coordinate of the (non-identity) element odd? (from the tag byte)
pub fn y_is_odd<C: Suite>(e: &El<C>) -> bool {
    el_bytes::<C>(e).map(|b| b[0] == 3).unwrap_or(false)
}
