pub mod c01;
