//! C02 — every intermediate and final value is bit-exact with RFC 9591 (and BIP-340).
//! Differential against /verif/ref/frostref.py.

use crate::common::*;
use crate::engine::*;
use crate::suites::*;
use crate::tape::{Sm, Tape, TapeSpec};
use crate::{dispatch, ensure};
use frost_core as frost;
use frost_core::SigningPackage;
use proptest::prelude::*;
use serde::{Deserialize, Serialize};
use serde_json::json;
use std::collections::BTreeMap;

pub struct C02;

#[derive(Clone, Debug, Serialize, Deserialize)]
pub enum Case {
    /// full FROST run compared value by value with the reference
    Frost { shape: Shape, ids: IdSpec, source: KeySource, subset: SubsetSpec, msg: MsgSpec, seed: u64 },
    /// Identifier::try_from(u16) for *every* u16 (exhaustive) against the RFC integer encoding
    IdSweep,
    /// single-signer entry point in both directions
    Single { msg: MsgSpec, seed: u64 },
}

const ST_SWEEP: u32 = 100;
const ST_WIDE: u32 = 102;
const ST_SINGLE: u32 = 200;

impl Property for C02 {
    type Case = Case;
    fn id(&self) -> &'static str {
        "C02"
    }
    fn level(&self) -> &'static str {
        "exploration"
    }
    fn rule(&self) -> String {
        "differential: each generated FROST run (suite, n, t, identifier style, key source, signer subset, message, shares, the 32+32 random \
         bytes every commit drew from the recorded tape) is recomputed by an independent RFC 9591 / BIP-340 implementation and compared byte \
         for byte (nonces - from commit() or from pair j of a preprocess() batch -, commitments, commitment list, binding-factor inputs, binding factors, group commitment, challenge, interpolation \
         coefficients, shares, signature); plus the exhaustive u16 identifier-encoding sweep and single-signer interop in both directions. \
         non-trivial = outside the two vector shapes: identifier above 65535 or derived, or >= 4 signers, or empty/multi-block message, or \
         (n,t) != (3,2); distinct = distinct (suite, n, t, id style, |S|, message class, key source, key/commitment parity) tuples"
            .into()
    }
    fn assumptions(&self) -> Vec<String> {
        vec![
            "frostref.py is a faithful implementation of RFC 9591/8032/9496/9380 and BIP-340/341; it is pinned by its self-test against the RFC 9591 appendix vectors of all suites, RFC 8032 and BIP-340 vectors (run by `./check setup`)".into(),
            "for the Taproot suite the reference derives the scheme from BIP-340 (even-Y effective key and nonce, x-only challenge)".into(),
        ]
    }
    fn plan(&self, suite: SuiteId, tier: Tier) -> Vec<(u32, u32)> {
        let per = match (tier, suite.slow()) {
            (Tier::Quick, false) => 60,
            (Tier::Quick, true) => 12,
            (Tier::Thorough, false) => 500,
            (Tier::Thorough, true) => 100,
        };
        let mut v: Vec<(u32, u32)> = (0..6).map(|s| (s, per)).collect();
        v.push((ST_SWEEP, 1));
        // more than 64 signers (multiscalar multiplications beyond one table block)
        v.push((ST_WIDE, tier.pick(1, if suite.slow() { 2 } else { 6 })));
        v.push((ST_SINGLE, tier.pick(if suite.slow() { 40 } else { 200 }, if suite.slow() { 400 } else { 3000 })));
        v
    }
    fn chunk(&self, suite: SuiteId) -> u32 {
        if suite.slow() { 4 } else { 10 }
    }
    fn max_shrink_iters(&self) -> u32 {
        64
    }
    fn strategy(&self, suite: SuiteId, tier: Tier, stratum: u32) -> BoxedStrategy<Case> {
        match stratum {
            ST_SWEEP => Just(Case::IdSweep).boxed(),
            ST_WIDE => {
                let sizes: Vec<u16> = if suite.slow() || tier == Tier::Quick { vec![65, 66] } else { vec![65, 70, 97, 130] };
                (proptest::sample::select(sizes), 2u16..=4, idspec_strategy(None), msg_short_strategy(), any::<u64>())
                    .prop_map(|(n, t, ids, msg, seed)| Case::Frost { shape: Shape { n, t }, ids, source: KeySource::Split, subset: SubsetSpec { class: SubsetClass::All, extra: 0, seed: 0 }, msg, seed })
                    .boxed()
            }
            ST_SINGLE => (msg_strategy(4096), any::<u64>()).prop_map(|(msg, seed)| Case::Single { msg, seed }).boxed(),
            s => {
                let style = ID_STYLES[(s % 6) as usize];
                let nmax = match (tier, suite.slow()) {
                    (Tier::Quick, false) => 8,
                    (Tier::Quick, true) => 5,
                    (Tier::Thorough, false) => 14,
                    (Tier::Thorough, true) => 8,
                };
                let src = prop_oneof![4 => Just(KeySource::Split), 2 => Just(KeySource::Dealer), 1 => Just(KeySource::Dkg)];
                (shape_strategy(nmax), idspec_strategy(Some(style)), src, subset_strategy(None), msg_strategy(8192), any::<u64>())
                    .prop_map(|(shape, ids, source, subset, msg, seed)| Case::Frost { shape, ids, source, subset, msg, seed })
                    .boxed()
            }
        }
    }
    fn required_labels(&self, tier: Tier) -> Vec<(String, u64)> {
        let m = tier.pick(10, 100);
        vec![
            ("frost-run".into(), m * 6),
            ("id-sweep-exhaustive".into(), 6),
            ("single:lib-signs".into(), m),
            ("single:ref-signs".into(), m),
            ("ids>65535".into(), m),
            ("nonces:preprocess-pair>0".into(), m),
            ("|S|>=4".into(), m),
            ("|S|>64".into(), 1),
            ("tr:key-odd".into(), 3),
            ("tr:R-odd".into(), 3),
        ]
    }
    fn check(&self, suite: SuiteId, case: &Case, ctx: &mut Ctx) -> CheckResult {
        dispatch!(suite, check(case, ctx))
    }
}

fn check<C: Suite>(case: &Case, ctx: &mut Ctx) -> CheckResult {
    match case {
        Case::IdSweep => id_sweep::<C>(ctx),
        Case::Single { msg, seed } => single::<C>(&msg.bytes(), *seed, msg.class(), ctx),
        Case::Frost { shape, ids, source, subset, msg, seed } => frost_run::<C>(*shape, *ids, *source, *subset, msg, *seed, ctx),
    }
}

/// RFC 9591: identifiers are integers encoded with SerializeScalar
fn rfc_int_encoding<C: Suite>(n: u16) -> Vec<u8> {
    let len = sc_len::<C>();
    let mut v = vec![0u8; len];
    if C::LE {
        v[0] = (n & 0xff) as u8;
        v[1] = (n >> 8) as u8;
    } else {
        v[len - 1] = (n & 0xff) as u8;
        v[len - 2] = (n >> 8) as u8;
    }
    v
}

fn id_sweep<C: Suite>(ctx: &mut Ctx) -> CheckResult {
    ctx.label("id-sweep-exhaustive");
    ensure!(ctx, Id::<C>::try_from(0u16).is_err(), "C02/identifier-zero-accepted", "Identifier::try_from(0) succeeded");
    let mut prev: Option<Id<C>> = None;
    for n in 1..=u16::MAX {
        let id = match Id::<C>::try_from(n) {
            Ok(i) => i,
            Err(e) => return ctx.fail("C02/identifier-encoding", format!("Identifier::try_from({n}) failed: {e:?}")),
        };
        let got = id.serialize();
        let want = rfc_int_encoding::<C>(n);
        ensure!(ctx, got == want, "C02/identifier-encoding", "Identifier::try_from({n}) encodes as {} but the RFC integer encoding is {}", hex::encode(&got), hex::encode(&want));
        if let Some(p) = prev {
            ensure!(ctx, p < id, "C02/identifier-order", "identifier {} does not sort below {}", n - 1, n);
        }
        prev = Some(id);
        ctx.eval(&format!("id{n}"), n > 5);
    }
    Ok(())
}

fn single<C: Suite>(msg: &[u8], seed: u64, mclass: &str, ctx: &mut Ctx) -> CheckResult {
    ctx.eval(&format!("single,{mclass},{}", seed % 4), true);
    // direction 1: the library signs, independent verifiers check
    let sk = frost::SigningKey::<C>::new(&mut Tape::random(seed ^ 0x51));
    let vk = frost::VerifyingKey::<C>::from(&sk);
    let sig = sk.sign(Tape::random(seed ^ 0x52), msg);
    let sigb = sig_bytes::<C>(&sig)?;
    let ok = independent_verify::<C>(ctx, &vk, msg, &sigb, true)?;
    ensure!(ctx, ok == Some(true), "C02/single-sign-rejected-by-independent-verifier", "SigningKey::sign output rejected by the independent verifier (msg len {})", msg.len());
    ensure!(ctx, vk.verify(msg, &sig).is_ok(), "C02/single-sign-self-verify", "SigningKey::sign output rejected by VerifyingKey::verify");
    ctx.label("single:lib-signs");

    // direction 2: independent signers sign, the library verifies
    let mut rng = Sm(seed ^ 0x53);
    let skb = sc_bytes::<C>(&sc_rand_nonzero::<C>(rng.next()));
    let r = ctx.py.call(&json!({"op":"single_sign","suite":C::SID.name(),"sk":hex::encode(&skb),"msg":hex::encode(msg),"rand":hex::encode(rng.bytes(32))}))?;
    lib_accepts::<C>(ctx, r["pk"].as_str().unwrap_or(""), r["sig"].as_str().unwrap_or(""), msg, "reference-schnorr")?;
    if matches!(C::SID, SuiteId::Ed25519 | SuiteId::Ed448) {
        let seedlen = if C::SID == SuiteId::Ed25519 { 32 } else { 57 };
        let r = ctx.py.call(&json!({"op":"rfc8032_sign","suite":C::SID.name(),"seed":hex::encode(rng.bytes(seedlen)),"msg":hex::encode(msg)}))?;
        lib_accepts::<C>(ctx, r["pk"].as_str().unwrap_or(""), r["sig"].as_str().unwrap_or(""), msg, "reference-rfc8032")?;
    }
    if C::SID == SuiteId::Ed25519 {
        use ed25519_dalek::Signer;
        let seedb: [u8; 32] = rng.bytes(32).try_into().unwrap();
        let dk = ed25519_dalek::SigningKey::from_bytes(&seedb);
        let s = dk.sign(msg);
        lib_accepts::<C>(ctx, &hex::encode(dk.verifying_key().to_bytes()), &hex::encode(s.to_bytes()), msg, "ed25519-dalek")?;
    }
    if C::SID == SuiteId::Secp256k1Tr {
        let secp = secp256k1::Secp256k1::new();
        let mut skb: [u8; 32] = rng.bytes(32).try_into().unwrap();
        skb[0] &= 0x7f;
        skb[31] |= 1;
        if let Ok(kp) = secp256k1::Keypair::from_seckey_byte_array(&secp, skb) {
            let aux: [u8; 32] = rng.bytes(32).try_into().unwrap();
            let s = secp.sign_schnorr_with_aux_rand(msg, &kp, &aux);
            let (x, _) = kp.x_only_public_key();
            let mut pk = vec![2u8];
            pk.extend_from_slice(&x.serialize());
            lib_accepts::<C>(ctx, &hex::encode(pk), &hex::encode(s.to_byte_array()), msg, "libsecp256k1")?;
        }
    }
    ctx.label("single:ref-signs");
    Ok(())
}

fn lib_accepts<C: Suite>(ctx: &mut Ctx, pk_hex: &str, sig_hex: &str, msg: &[u8], who: &str) -> CheckResult {
    let pk = hex::decode(pk_hex).map_err(|_| inconclusive("bad hex from reference"))?;
    let sg = hex::decode(sig_hex).map_err(|_| inconclusive("bad hex from reference"))?;
    let vk = match frost::VerifyingKey::<C>::deserialize(&pk) {
        Ok(v) => v,
        Err(e) => return ctx.fail("C02/independent-key-rejected", format!("{who}: library rejects the independent signer's public key {pk_hex}: {e:?}")),
    };
    let sig = match frost::Signature::<C>::deserialize(&sg) {
        Ok(v) => v,
        Err(e) => return ctx.fail("C02/independent-signature-rejected", format!("{who}: library cannot decode the independent signer's signature: {e:?}")),
    };
    let r = vk.verify(msg, &sig);
    ensure!(ctx, r.is_ok(), "C02/independent-signature-rejected", "{who}: library rejects a signature made by the independent signer: {:?}", r);
    // and a signature over another message must not verify
    let mut m2 = msg.to_vec();
    m2.push(0x21);
    ensure!(ctx, vk.verify(&m2, &sig).is_err(), "C02/forgery-accepted", "{who}: library accepts the signature for a different message");
    Ok(())
}

fn cmp(ctx: &mut Ctx, what: &str, key: &str, lib: &str, reference: Option<&str>, detail: &str) -> CheckResult {
    let r = reference.unwrap_or("<missing>");
    if lib != r {
        ctx.fail(key, format!("{what} differs from RFC 9591 reference ({detail}): library {lib} reference {r}"))?;
    }
    Ok(())
}

fn frost_run<C: Suite>(shape: Shape, ids: IdSpec, source: KeySource, subset: SubsetSpec, msgs: &MsgSpec, seed: u64, ctx: &mut Ctx) -> CheckResult {
    let shape = Shape { n: shape.n.max(2), t: shape.t.clamp(2, shape.n.max(2)) };
    let keys = make_keys::<C>(shape, ids, source, seed, "C02")?;
    let sub = make_subset(shape.n as usize, shape.t as usize, subset);
    let signers: Vec<Id<C>> = sub.iter().map(|i| keys.ids[*i]).collect();
    let msg = msgs.bytes();
    let vk = *keys.pubkeys.verifying_key();
    let big_ids = !matches!(ids.style, IdStyle::Default | IdStyle::SmallU16 | IdStyle::Extremes);
    let nontrivial = big_ids || signers.len() >= 4 || msg.is_empty() || msg.len() > 64 || (shape.n, shape.t) != (3, 2);
    ctx.label("frost-run");
    if big_ids {
        ctx.label("ids>65535");
    }
    if signers.len() >= 4 {
        ctx.label("|S|>=4");
    }
    if signers.len() > 64 {
        ctx.label("|S|>64");
    }
    ctx.label(&format!("id:{}", ids.style.name()));
    ctx.label(&format!("src:{}", source.name()));

    // commit with recorded tapes so that the reference can be given the very same random bytes
    let mut nonces = BTreeMap::new();
    let mut comms = BTreeMap::new();
    let mut req_signers = Vec::new();
    for (k, id) in signers.iter().enumerate() {
        let spec = TapeSpec::Random(seed ^ (0xc02_000 + k as u64).wrapping_mul(0x9e37_79b9_7f4a_7c15));
        let mut tape = Tape::new(spec);
        // every other signer takes its nonces from a preprocessed batch (pair j of 2..4): pair j is what commit() would
        // return at that point of the same random stream, i.e. it draws bytes [64j, 64j+64)
        let (n, c, j) = if (k + (seed as usize & 1)) % 2 == 1 {
            let num = 2 + ((seed >> 8) as usize + k) % 3;
            let j = ((seed >> 16) as usize + k) % num;
            let (mut ns, mut cs) = frost::round1::preprocess(num as u8, keys.kps[id].signing_share(), &mut tape);
            if ns.len() != num || cs.len() != num {
                return ctx.fail("C02/preprocess-count", format!("preprocess({num}) returned {} nonces / {} commitments", ns.len(), cs.len()));
            }
            ctx.label("nonces:preprocess");
            if j > 0 {
                ctx.label("nonces:preprocess-pair>0");
            }
            (ns.swap_remove(j), cs.swap_remove(j), j as u64)
        } else {
            let (n, c) = frost::round1::commit(keys.kps[id].signing_share(), &mut tape);
            (n, c, 0)
        };
        req_signers.push(json!({
            "id": hex::encode(id.serialize()),
            "share": hex::encode(keys.kps[id].signing_share().serialize()),
            "hr": hex::encode(tape.peek(64 * j, 32)),
            "br": hex::encode(tape.peek(64 * j + 32, 32)),
        }));
        nonces.insert(*id, n);
        comms.insert(*id, c);
    }
    let package = SigningPackage::new(comms.clone(), &msg);
    let vkb = vk.serialize().map_err(|e| inconclusive(format!("vk serialize {e:?}")))?;
    let rf = ctx.py.call(&json!({"op":"frost_sign","suite":C::SID.name(),"pk":hex::encode(&vkb),"msg":hex::encode(&msg),"signers":req_signers}))?;
    let detail = format!("n={} t={} ids={} |S|={} msg={}B src={}", shape.n, shape.t, ids.style.name(), signers.len(), msg.len(), source.name());

    // Taproot: the library normalises the key to even Y before hashing it
    let key_odd = C::SID.taproot() && y_is_odd::<C>(&vk.to_element());
    let vk_eff = if key_odd { frost::VerifyingKey::<C>::new(el_neg::<C>(vk.to_element())) } else { vk };
    if C::SID.taproot() {
        ctx.label(if key_odd { "tr:key-odd" } else { "tr:key-even" });
        let r_odd = rf["group_commitment_odd"].as_bool().unwrap_or(false);
        ctx.label(if r_odd { "tr:R-odd" } else { "tr:R-even" });
    }
    ctx.eval(
        &format!("{},{},{},{},{},{},{}", shape.n, shape.t, ids.style.name(), signers.len(), msgs.class(), source.name(), key_odd),
        nontrivial,
    );

    // order of the reference's signer list = integer order of identifiers; the library's = BTreeMap order
    let rsign = rf["signers"].as_array().cloned().unwrap_or_default();
    ensure!(ctx, rsign.len() == signers.len(), "C02/harness", "reference returned {} signers", rsign.len());
    let lib_order: Vec<String> = comms.keys().map(|i| hex::encode(i.serialize())).collect();
    let ref_order: Vec<String> = rsign.iter().map(|s| s["id"].as_str().unwrap_or("").to_string()).collect();
    ensure!(ctx, lib_order == ref_order, "C02/identifier-order", "participants are ordered differently from their integer order ({detail}): library {:?} reference {:?}", lib_order, ref_order);
    let byid: BTreeMap<String, &serde_json::Value> = rsign.iter().map(|s| (s["id"].as_str().unwrap_or("").to_string(), s)).collect();

    // nonces and commitments
    for id in &signers {
        let idh = hex::encode(id.serialize());
        let r = byid.get(&idh).copied().ok_or_else(|| inconclusive("reference lost a signer"))?;
        cmp(ctx, "hiding nonce", "C02/nonce", &hex::encode(nonces[id].hiding().serialize()), r["hiding_nonce"].as_str(), &detail)?;
        cmp(ctx, "binding nonce", "C02/nonce", &hex::encode(nonces[id].binding().serialize()), r["binding_nonce"].as_str(), &detail)?;
        let hc = comms[id].hiding().serialize().map(hex::encode).unwrap_or_default();
        let bc = comms[id].binding().serialize().map(hex::encode).unwrap_or_default();
        cmp(ctx, "hiding commitment", "C02/commitment", &hc, r["hiding_commitment"].as_str(), &detail)?;
        cmp(ctx, "binding commitment", "C02/commitment", &bc, r["binding_commitment"].as_str(), &detail)?;
    }
    // encoded commitment list
    match frost::round1::encode_group_commitments(package.signing_commitments()) {
        Ok(b) => cmp(ctx, "encoded commitment list", "C02/commitment-list", &hex::encode(b), rf["commitment_list"].as_str(), &detail)?,
        Err(e) => ctx.fail("C02/commitment-list", format!("encode_group_commitments failed: {e:?}"))?,
    }
    // binding factor inputs and binding factors
    match package.binding_factor_preimages(&vk_eff, &[]) {
        Ok(pre) => {
            for (id, p) in pre {
                let idh = hex::encode(id.serialize());
                if let Some(r) = byid.get(&idh) {
                    cmp(ctx, "binding factor input", "C02/binding-factor-input", &hex::encode(p), r["binding_factor_input"].as_str(), &detail)?;
                }
            }
        }
        Err(e) => ctx.fail("C02/binding-factor-input", format!("binding_factor_preimages failed: {e:?}"))?,
    }
    let bfl = match frost::compute_binding_factor_list(&package, &vk_eff, &[]) {
        Ok(b) => b,
        Err(e) => return ctx.fail("C02/binding-factor", format!("compute_binding_factor_list failed: {e:?}")),
    };
    for id in &signers {
        let idh = hex::encode(id.serialize());
        let r = byid[&idh];
        let bf = bfl.get(id).map(|b| hex::encode(b.serialize())).unwrap_or_default();
        cmp(ctx, "binding factor", "C02/binding-factor", &bf, r["binding_factor"].as_str(), &detail)?;
        match frost::derive_interpolating_value(id, &package) {
            Ok(l) => cmp(ctx, "interpolation coefficient", "C02/lagrange", &sc_hex::<C>(&l), r["lambda_"].as_str(), &detail)?,
            Err(e) => ctx.fail("C02/lagrange", format!("derive_interpolating_value failed: {e:?}"))?,
        }
    }
    // group commitment and challenge
    match frost::compute_group_commitment(&package, &bfl) {
        Ok(gc) => {
            let el = gc.to_element();
            cmp(ctx, "group commitment", "C02/group-commitment", &el_hex::<C>(&el), rf["group_commitment"].as_str(), &detail)?;
            match C::challenge(&el, &vk_eff, &msg) {
                Ok(c) => cmp(ctx, "challenge", "C02/challenge", &sc_hex::<C>(&c.to_scalar()), rf["challenge"].as_str(), &detail)?,
                Err(e) => ctx.fail("C02/challenge", format!("challenge failed: {e:?}"))?,
            }
        }
        Err(e) => ctx.fail("C02/group-commitment", format!("compute_group_commitment failed: {e:?}"))?,
    }
    // signature shares
    let mut shares = BTreeMap::new();
    for id in &signers {
        let idh = hex::encode(id.serialize());
        match frost::round2::sign(&package, &nonces[id], &keys.kps[id]) {
            Ok(s) => {
                cmp(ctx, "signature share", "C02/signature-share", &hex::encode(s.serialize()), byid[&idh]["sig_share"].as_str(), &detail)?;
                shares.insert(*id, s);
            }
            Err(e) => ctx.fail("C02/signature-share", format!("sign failed: {e:?} ({detail})"))?,
        }
    }
    // final signature
    if shares.len() == signers.len() {
        match frost::aggregate(&package, &shares, &keys.pubkeys) {
            Ok(sig) => {
                let b = sig_bytes::<C>(&sig)?;
                cmp(ctx, "final signature", "C02/signature", &hex::encode(&b), rf["signature"].as_str(), &detail)?;
                if let Some(ok) = C::independent_verify(&vkb, &msg, &b) {
                    ensure!(ctx, ok, "C02/signature-not-standard", "final signature rejected by the linked independent verifier ({detail})");
                }
            }
            Err(e) => ctx.fail("C02/signature", format!("aggregate failed: {e:?} ({detail})"))?,
        }
    }
    Ok(())
}
