//! C14 — untrusted bytes and untrusted protocol messages never cause a panic.

use crate::engine::*;
use crate::fuzz_entry::{self, Worlds, ENTRY_NAMES, N_ENTRIES, N_TYPES, TYPE_NAMES};
use crate::suites::*;
use crate::tape::Sm;
use crate::dispatch;
use proptest::prelude::*;
use serde::{Deserialize, Serialize};
use serde_json::json;
use std::panic::{catch_unwind, AssertUnwindSafe};
use std::path::PathBuf;
use std::process::Command;

pub struct C14;

#[derive(Clone, Debug, Serialize, Deserialize)]
pub enum Case {
    /// structured mutation of a valid encoding of wire type `sel` (>= 128: JSON form)
    Bytes { sel: u8, ops: Vec<(u8, u16, u8)>, splice_sel: u8, splice_suite: u8, seed: u64 },
    /// protocol mutation script for entry point `entry` (interpreted by fuzz_entry::proto)
    Script { entry: u8, world: u8, bytes: Vec<u8> },
    /// raw fuzz inputs (corpus / crash replay)
    RawDecode { hex: String },
    RawProto { hex: String },
    /// a well-formed commitment vector with 65536 + extra entries (its length does not fit the u16 threshold
    /// fields) handed to entry point `which`: 0 dkg::part2, 1 PublicKeyPackage::from_commitment, 2 KeyPackage::try_from(SecretShare)
    Huge { which: u8, extra: u16, seed: u64 },
}

impl Property for C14 {
    type Case = Case;
    fn id(&self) -> &'static str {
        "C14"
    }
    fn level(&self) -> &'static str {
        "exploration"
    }
    fn rule(&self) -> String {
        "bytes: for every wire type (24 types x binary/JSON) of every suite a valid encoding taken from a real run is mutated by a generated \
         script (bit flips, byte sets, truncation, extension, long strings with multi-byte characters at chosen byte offsets in JSON string members, splicing with an encoding of another type or another suite, count/length \
         inflation) and decoded; messages: for each of 22 protocol entry points that consume peer material a generated mutation script \
         (drop, swap, re-key, other-session/other-run entries, attacker-chosen well-typed values incl. identity elements and zero scalars, \
         empty and oversized maps, commitments of length 0/1/t-1/t+1/300 - and, as separate cases, 65536..65539 entries for dkg::part2, \
         PublicKeyPackage::from_commitment and KeyPackage::try_from(SecretShare) -, thresholds 0/1/65535/None) is applied to cached honest transcripts \
         while the caller's own secret state stays honest. Oracle: no panic (overflow checks and debug assertions on), plus: accepted \
         encodings round-trip, Ok(signature) verifies, Ok(key material) is consistent. The committed corpus is replayed; the thorough tier \
         adds coverage-guided libFuzzer campaigns on both targets. One evaluation per decoded string / script. non-trivial = every input \
         that is not a well-formed honest message; distinct = distinct (suite, type or entry point, mutation descriptor) tuples"
            .into()
    }
    fn assumptions(&self) -> Vec<String> {
        vec![
            "absence of panics is not established, only not found".into(),
            "the caller's own secret state (key package, nonces, secret packages) is honest, as the property requires; the chain reconstruct -> SigningKey::sign is outside the listed message kinds".into(),
        ]
    }
    fn plan(&self, suite: SuiteId, tier: Tier) -> Vec<(u32, u32)> {
        let slow = suite.slow();
        let per_type = match (tier, slow) {
            (Tier::Quick, false) => 300,
            (Tier::Quick, true) => 60,
            (Tier::Thorough, false) => 6000,
            (Tier::Thorough, true) => 1000,
        };
        let per_entry = match (tier, slow) {
            (Tier::Quick, false) => 150,
            (Tier::Quick, true) => 25,
            (Tier::Thorough, false) => 4000,
            (Tier::Thorough, true) => 500,
        };
        let mut v = Vec::new();
        for t in 0..N_TYPES as u32 {
            v.push((t, per_type));
            v.push((128 + t, per_type / 2));
        }
        for e in 0..N_ENTRIES as u32 {
            v.push((1000 + e, per_entry));
        }
        // oversized commitment vectors: part2 for every suite (cheap), the two entry points that evaluate the
        // whole vector only for the fast suites
        v.push((2000, tier.pick(2, 8)));
        if !slow {
            v.push((2001, tier.pick(1, 3)));
            v.push((2002, tier.pick(1, 3)));
        }
        v
    }
    fn chunk(&self, _suite: SuiteId) -> u32 {
        400
    }
    fn max_shrink_iters(&self) -> u32 {
        512
    }
    fn strategy(&self, _suite: SuiteId, _tier: Tier, stratum: u32) -> BoxedStrategy<Case> {
        if stratum >= 2000 {
            let which = (stratum - 2000) as u8;
            (0u16..4, any::<u64>()).prop_map(move |(extra, seed)| Case::Huge { which, extra, seed }).boxed()
        } else if stratum >= 1000 {
            let entry = (stratum - 1000) as u8;
            (0u8..2, proptest::collection::vec(any::<u8>(), 0..160)).prop_map(move |(world, bytes)| Case::Script { entry, world, bytes }).boxed()
        } else {
            let sel = stratum as u8;
            (proptest::collection::vec((0u8..10, any::<u16>(), any::<u8>()), 0..6), any::<u8>(), 0u8..6, any::<u64>())
                .prop_map(move |(ops, splice_sel, splice_suite, seed)| Case::Bytes { sel, ops, splice_sel, splice_suite, seed })
                .boxed()
        }
    }
    fn required_labels(&self, tier: Tier) -> Vec<(String, u64)> {
        let m = tier.pick(100, 2000);
        let mut v: Vec<(String, u64)> = ENTRY_NAMES.iter().map(|e| (format!("entry:{e}"), m)).collect();
        v.push(("bytes:accepted-after-mutation".into(), m));
        v.push(("bytes:rejected".into(), m));
        v.push(("op:splice".into(), m));
        v.push(("op:truncate".into(), m));
        v.push(("op:inflate".into(), m));
        v.push(("op:string-stuffing".into(), m));
        v.push(("corpus-replay".into(), 100));
        v.push(("huge-commitment:part2".into(), 6));
        v.push(("huge-commitment:from_commitment".into(), 3));
        v.push(("huge-commitment:key-package-from-secret-share".into(), 3));
        v
    }
    fn check(&self, suite: SuiteId, case: &Case, ctx: &mut Ctx) -> CheckResult {
        dispatch!(suite, check(case, ctx))
    }
    fn extra(&self, tier: Tier, seed: u64, _known: &Known, out: &mut ExtraOut) {
        corpus_replay("C14", out);
        if tier == Tier::Thorough {
            fuzz_campaign("C14", "fz_decode", seed, 240, out);
            fuzz_campaign("C14", "fz_proto", seed, 240, out);
        }
    }
}

/// run a fuzz body; a panic becomes a Failure (oracle message or panic location as key)
pub fn no_panic(prop: &str, f: impl FnOnce()) -> CheckResult {
    match catch_unwind(AssertUnwindSafe(f)) {
        Ok(()) => Ok(()),
        Err(_) => {
            let (loc, msg) = take_panic();
            if msg.contains(crate::tape::TAPE_RUNAWAY) {
                return Err(inconclusive("tape runaway"));
            }
            if let Some(rest) = msg.strip_prefix("FV-ORACLE ") {
                let key: String = rest.chars().take(60).map(|c| if c.is_alphanumeric() { c } else { '-' }).collect();
                Err(Failure { key: format!("{prop}/oracle/{key}"), msg: rest.to_string() })
            } else {
                Err(Failure { key: format!("{prop}/panic@{loc}"), msg: format!("panic at {loc}: {msg}") })
            }
        }
    }
}

pub fn mutate<C: Worlds>(sel: u8, ops: &[(u8, u16, u8)], splice_sel: u8, splice_suite: u8, seed: u64, labels: &mut Vec<&'static str>) -> Vec<u8> {
    let corpus = fuzz_entry::corpus::<C>();
    let mut b = corpus.iter().find(|(s, _)| *s == sel).or_else(|| corpus.iter().find(|(s, _)| *s == (sel & 0x7f))).map(|(_, b)| b.clone()).unwrap_or_default();
    let mut rng = Sm(seed);
    for (op, pos, val) in ops {
        let len = b.len();
        match op {
            0 => {
                if len > 0 {
                    let p = idx(*pos, len);
                    b[p] ^= 1 << (val % 8);
                    labels.push("op:bitflip");
                }
            }
            1 => {
                if len > 0 {
                    b[idx(*pos, len)] = *val;
                    labels.push("op:byteset");
                }
            }
            2 => {
                b.truncate(idx(*pos, len + 1));
                labels.push("op:truncate");
            }
            3 => {
                let extra = 1 + (*val as usize % 40);
                b.extend(rng.bytes(extra));
                labels.push("op:extend");
            }
            4 => {
                // splice with an encoding of another type and possibly another suite
                let other = fuzz_entry::corpus_of(ALL_SUITES[(splice_suite % 6) as usize]);
                let src = &other[(splice_sel as usize) % other.len()].1;
                if !src.is_empty() {
                    let cut_a = idx(*pos, len + 1);
                    let cut_b = (*val as usize * src.len()) >> 8;
                    b.truncate(cut_a);
                    b.extend_from_slice(&src[cut_b..]);
                    labels.push("op:splice");
                }
            }
            5 => {
                // inflate a count / length: overwrite with a large varint
                if len > 6 {
                    let p = 5 + idx(*pos, len - 5);
                    let pat: &[u8] = match val % 4 {
                        0 => &[0xff, 0xff, 0xff, 0xff, 0x0f],
                        1 => &[0x80, 0x80, 0x80, 0x80, 0x80],
                        2 => &[0xff, 0x7f],
                        _ => &[0xff, 0xff, 0x03],
                    };
                    for (k, x) in pat.iter().enumerate() {
                        if p + k < b.len() {
                            b[p + k] = *x;
                        }
                    }
                    labels.push("op:inflate");
                }
            }
            6 => {
                // JSON-aware: duplicate or delete a chunk
                if len > 4 {
                    let p = idx(*pos, len - 2);
                    let l = 1 + (*val as usize % (len - p - 1).max(1));
                    let chunk: Vec<u8> = b[p..p + l].to_vec();
                    if val % 2 == 0 {
                        b.splice(p..p, chunk);
                    } else {
                        b.drain(p..p + l);
                    }
                    labels.push("op:dup-or-delete-chunk");
                }
            }
            8 => {
                // JSON-aware: replace the content of one string literal by a long string with a multi-byte character
                // at a chosen byte offset (string handling that cuts or indexes at fixed byte positions)
                let quotes: Vec<usize> = b.iter().enumerate().filter(|(_, c)| **c == b'"').map(|(i, _)| i).collect();
                if quotes.len() >= 2 {
                    let k = idx(*pos, quotes.len() / 2);
                    let (q0, q1) = (quotes[2 * k], quotes[2 * k + 1]);
                    let ascii = 40 + (*val as usize % 40);
                    let wide = ["\u{e9}", "\u{20ac}", "\u{1f600}"][(*pos as usize) % 3];
                    let tail = (*pos as usize >> 3) % 5;
                    let mut st = "A".repeat(ascii);
                    st.push_str(wide);
                    st.push_str(&"b".repeat(tail));
                    b.splice(q0 + 1..q1, st.into_bytes());
                    labels.push("op:string-stuffing");
                }
            }
            _ => {
                // replace a whole region with a constant
                if len > 0 {
                    let p = idx(*pos, len);
                    let l = (1 + *val as usize % 64).min(len - p);
                    for x in &mut b[p..p + l] {
                        *x = [0x00, 0xff, 0x01, 0x80][(*val % 4) as usize];
                    }
                    labels.push("op:fill");
                }
            }
        }
    }
    b
}

fn check<C: Worlds>(case: &Case, ctx: &mut Ctx) -> CheckResult {
    match case {
        Case::Bytes { sel, ops, splice_sel, splice_suite, seed } => {
            let mut labels = Vec::new();
            let b = mutate::<C>(*sel, ops, *splice_sel, *splice_suite, *seed, &mut labels);
            let tname = TYPE_NAMES[((sel & 0x7f) % N_TYPES) as usize];
            ctx.eval(&format!("bytes,{tname},{},{:x}", sel >> 7, fnv(&hex::encode(&b))), !ops.is_empty());
            for l in labels {
                ctx.label(l);
            }
            // was it accepted? (informational classification, decided by a second run of the decoder)
            no_panic("C14", || fuzz_entry::decode_one::<C>(*sel, &b))?;
            let accepted = accepted::<C>(*sel, &b);
            ctx.label(if accepted && !ops.is_empty() { "bytes:accepted-after-mutation" } else if accepted { "bytes:accepted" } else { "bytes:rejected" });
            Ok(())
        }
        Case::Script { entry, world, bytes } => {
            let mut data = vec![*world, *entry];
            data.extend_from_slice(bytes);
            let ename = ENTRY_NAMES[(*entry % N_ENTRIES) as usize];
            ctx.eval(&format!("script,{ename},{:x}", fnv(&hex::encode(&data))), true);
            ctx.label(&format!("entry:{ename}"));
            no_panic("C14", || fuzz_entry::proto_one::<C>(&data))
        }
        Case::RawDecode { hex } => {
            let b = hex::decode(hex).map_err(|_| inconclusive("bad hex in raw case"))?;
            ctx.eval(&format!("raw-decode,{:x}", fnv(hex)), true);
            no_panic("C14", || fuzz_entry::decode(&b))
        }
        Case::RawProto { hex } => {
            let b = hex::decode(hex).map_err(|_| inconclusive("bad hex in raw case"))?;
            ctx.eval(&format!("raw-proto,{:x}", fnv(hex)), true);
            no_panic("C14", || fuzz_entry::proto(&b))
        }
        Case::Huge { which, extra, seed } => huge::<C>(*which, *extra, *seed, ctx),
    }
}

/// does the suite's decoder for selector `sel` accept `b`? (classification only)
fn accepted<C: Worlds>(sel: u8, b: &[u8]) -> bool {
    use frost_core::keys::dkg::{round1, round2};
    use frost_core::keys::*;
    use frost_core::round1::*;
    use frost_core::*;
    let json = sel >= 128;
    macro_rules! acc {
        ($T:ty) => {
            if json { serde_json::from_slice::<$T>(b).is_ok() } else { <$T>::deserialize(b).is_ok() }
        };
    }
    match (sel & 0x7f) % N_TYPES {
        0 => acc!(Identifier<C>),
        1 => acc!(SigningShare<C>),
        2 => acc!(VerifyingShare<C>),
        3 => acc!(VerifyingKey<C>),
        4 => SigningKey::<C>::deserialize(b).is_ok(),
        5 => acc!(Nonce<C>),
        6 => acc!(NonceCommitment<C>),
        7 => acc!(CoefficientCommitment<C>),
        8 => {
            if json { serde_json::from_slice::<VerifiableSecretSharingCommitment<C>>(b).is_ok() } else { VerifiableSecretSharingCommitment::<C>::deserialize_whole(b).is_ok() }
        }
        9 => {
            if json { serde_json::from_slice::<frost_core::round2::SignatureShare<C>>(b).is_ok() } else { frost_core::round2::SignatureShare::<C>::deserialize(b).is_ok() }
        }
        10 => acc!(Signature<C>),
        11 => acc!(repairable::Delta<C>),
        12 => acc!(repairable::Sigma<C>),
        13 => acc!(frost_rerandomized::Randomizer<C>),
        14 => acc!(SigningNonces<C>),
        15 => acc!(SigningCommitments<C>),
        16 => acc!(SigningPackage<C>),
        17 => acc!(SecretShare<C>),
        18 => acc!(KeyPackage<C>),
        19 => acc!(PublicKeyPackage<C>),
        20 => acc!(round1::Package<C>),
        21 => acc!(round1::SecretPackage<C>),
        22 => acc!(round2::Package<C>),
        _ => acc!(round2::SecretPackage<C>),
    }
}

// ---------------------------------------------------------------------------------------------
// corpus replay and libFuzzer campaigns (extra stage)

pub fn corpus_replay(prop: &str, out: &mut ExtraOut) {
    corpus_replay_one(prop, "decode", out);
    corpus_replay_one(prop, "proto", out);
}

pub fn corpus_replay_one(prop: &str, which: &str, out: &mut ExtraOut) {
    for (target, dir) in [("decode", "corpus/decode"), ("proto", "corpus/proto")] {
        if target != which {
            continue;
        }
        let path = PathBuf::from(format!("{VERIF_DIR}/{dir}"));
        let mut files: Vec<PathBuf> = std::fs::read_dir(&path).map(|d| d.filter_map(|e| e.ok()).map(|e| e.path()).filter(|p| p.is_file()).collect()).unwrap_or_default();
        files.sort();
        for f in files {
            let data = match std::fs::read(&f) {
                Ok(d) => d,
                Err(_) => continue,
            };
            let r = if target == "decode" { no_panic(prop, || fuzz_entry::decode(&data)) } else { no_panic(prop, || fuzz_entry::proto(&data)) };
            out.stats.evaluations += 1;
            out.stats.nontrivial += 1;
            out.stats.distinct.insert(fnv(&format!("corpus|{target}|{}", hex::encode(&data))));
            *out.stats.labels.entry("corpus-replay".into()).or_default() += 1;
            if let Err(fl) = r {
                if fl.key == INCONCLUSIVE {
                    out.inconclusive.push(fl.msg);
                    continue;
                }
                let case = if target == "decode" { Case::RawDecode { hex: hex::encode(&data) } } else { Case::RawProto { hex: hex::encode(&data) } };
                out.violations.push(Violation {
                    suite: ALL_SUITES[(data.first().copied().unwrap_or(0) % 6) as usize].name().to_string(),
                    failure: fl,
                    case: serde_json::to_value(&case).unwrap(),
                    replay_kind: "case".into(),
                });
            }
        }
    }
}

/// one bounded libFuzzer campaign through cargo-fuzz. Findings become violations with a replayable
/// raw case; a missing toolchain or a timeout is *inconclusive*, never a violation.
pub fn fuzz_campaign(prop: &str, target: &str, seed: u64, secs: u64, out: &mut ExtraOut) {
    let fuzz_dir = format!("{VERIF_DIR}/fuzz");
    let work = PathBuf::from(format!("{VERIF_DIR}/fuzz/target/campaign-{target}-{}", std::process::id()));
    let _ = std::fs::remove_dir_all(&work);
    let corpus_dir = work.join("corpus");
    let art_dir = work.join("artifacts");
    let _ = std::fs::create_dir_all(&corpus_dir);
    let _ = std::fs::create_dir_all(&art_dir);
    // fresh corpus directory seeded from the committed corpus
    let seed_dir = format!("{VERIF_DIR}/corpus/{}", if target == "fz_decode" { "decode" } else { "proto" });
    if let Ok(rd) = std::fs::read_dir(&seed_dir) {
        for e in rd.filter_map(|e| e.ok()) {
            let _ = std::fs::copy(e.path(), corpus_dir.join(e.file_name()));
        }
    }
    let jobs = threads().min(16);
    let status = Command::new("cargo")
        .current_dir(&fuzz_dir)
        .env("CARGO_NET_OFFLINE", "true")
        .args(["+nightly", "fuzz", "run", "-s", "none", "--fuzz-dir", &fuzz_dir, target, corpus_dir.to_str().unwrap(), "--"])
        .arg(format!("-artifact_prefix={}/", art_dir.display()))
        .arg(format!("-seed={}", (seed.wrapping_add(1) & 0x7fff_ffff).max(1)))
        .arg(format!("-max_total_time={secs}"))
        .arg("-len_control=0")
        .arg("-max_len=4096")
        .arg("-print_final_stats=1")
        .arg(format!("-fork={jobs}"))
        .arg("-ignore_crashes=0")
        .output();
    let outp = match status {
        Ok(o) => o,
        Err(e) => {
            out.inconclusive.push(format!("cannot run cargo fuzz for {target}: {e}"));
            return;
        }
    };
    let text = format!("{}{}", String::from_utf8_lossy(&outp.stdout), String::from_utf8_lossy(&outp.stderr));
    // executions
    let mut execs: u64 = 0;
    for line in text.lines() {
        if let Some(p) = line.find("stat::number_of_executed_units:") {
            execs += line[p + 31..].trim().parse::<u64>().unwrap_or(0);
        } else if line.starts_with('#') && line.contains("cov:") {
            if let Some(n) = line[1..].split(':').next().and_then(|s| s.trim().parse::<u64>().ok()) {
                execs = execs.max(n);
            }
        }
    }
    let mut crashes: Vec<PathBuf> = std::fs::read_dir(&art_dir).map(|d| d.filter_map(|e| e.ok()).map(|e| e.path()).collect()).unwrap_or_default();
    crashes.sort();
    out.stats.evaluations += execs;
    out.stats.nontrivial += execs;
    *out.stats.labels.entry(format!("libfuzzer:{target}:executions")).or_default() += execs;
    out.notes.insert(format!("libfuzzer_{target}"), json!({"executions": execs, "seconds": secs, "jobs": jobs, "crash_artifacts": crashes.len(), "exit": outp.status.code()}));
    if execs == 0 && crashes.is_empty() {
        let tail: String = text.lines().rev().take(12).collect::<Vec<_>>().join(" | ");
        out.inconclusive.push(format!("libFuzzer campaign {target} executed nothing: {tail}"));
    }
    for cfile in crashes {
        let name = cfile.file_name().and_then(|s| s.to_str()).unwrap_or("").to_string();
        if !(name.starts_with("crash-") || name.starts_with("oom-") || name.starts_with("timeout-")) {
            continue;
        }
        let data = match std::fs::read(&cfile) {
            Ok(d) => d,
            Err(_) => continue,
        };
        if name.starts_with("oom-") || name.starts_with("timeout-") {
            out.inconclusive.push(format!("libFuzzer {target} reported {name} ({} bytes): resource exhaustion is reported as inconclusive", data.len()));
            continue;
        }
        // confirm in-process with our own predicate (the crash must be a panic of the library or an oracle failure)
        let r = if target == "fz_decode" { no_panic(prop, || fuzz_entry::decode(&data)) } else { no_panic(prop, || fuzz_entry::proto(&data)) };
        match r {
            Err(fl) if fl.key != INCONCLUSIVE => {
                let data = minimise(prop, target, data);
                let case = if target == "fz_decode" { Case::RawDecode { hex: hex::encode(&data) } } else { Case::RawProto { hex: hex::encode(&data) } };
                out.violations.push(Violation {
                    suite: ALL_SUITES[(data.first().copied().unwrap_or(0) % 6) as usize].name().to_string(),
                    failure: fl,
                    case: serde_json::to_value(&case).unwrap(),
                    replay_kind: "case".into(),
                });
            }
            _ => out.inconclusive.push(format!("libFuzzer {target} artifact {name} does not reproduce in-process")),
        }
    }
    let _ = std::fs::remove_dir_all(&work);
}

/// greedy minimisation with OUR predicate (same failure key), not `fuzz tmin` (which minimises to any crash)
fn minimise(prop: &str, target: &str, mut data: Vec<u8>) -> Vec<u8> {
    let run = |d: &[u8]| -> Option<String> {
        let r = if target == "fz_decode" { no_panic(prop, || fuzz_entry::decode(d)) } else { no_panic(prop, || fuzz_entry::proto(d)) };
        r.err().map(|f| f.key)
    };
    let key = match run(&data) {
        Some(k) => k,
        None => return data,
    };
    let mut step = data.len() / 2;
    while step >= 1 {
        let mut i = 2; // keep the two selector bytes
        while i + step <= data.len() {
            let mut cand = data.clone();
            cand.drain(i..i + step);
            if run(&cand).as_deref() == Some(key.as_str()) {
                data = cand;
            } else {
                i += step;
            }
        }
        step /= 2;
    }
    data
}


/// a peer's (valid) commitment padded to 65536 + extra entries
fn huge<C: Worlds>(which: u8, extra: u16, seed: u64, ctx: &mut Ctx) -> CheckResult {
    use crate::common::*;
    use frost_core::keys::dkg::{self, round1};
    use frost_core::keys::{CoefficientCommitment, KeyPackage, PublicKeyPackage, SecretShare, VerifiableSecretSharingCommitment};
    let l = 65536usize + (extra % 4) as usize;
    let shape = Shape { n: 2, t: 2 };
    let mut idv = make_ids::<C>(IdSpec { style: IdStyle::Default, seed: 0 }, 2);
    idv.sort();
    let run = dkg_rounds::<C>(shape, &idv, seed, "C14")?;
    let (me, peer) = (idv[0], idv[1]);
    let pkg = &run.r1_pkg[&peer];
    let mut coeffs = pkg.commitment().coefficients().to_vec();
    coeffs.resize(l, CoefficientCommitment::new(gen_::<C>() * sc_rand_nonzero::<C>(seed ^ 0x4u64)));
    let big = VerifiableSecretSharingCommitment::<C>::new(coeffs);
    let name = ["part2", "from_commitment", "key-package-from-secret-share"][(which % 3) as usize];
    ctx.eval(&format!("huge,{name},{l}"), true);
    ctx.label(&format!("huge-commitment:{name}"));
    match which % 3 {
        0 => {
            let mut r1 = std::collections::BTreeMap::new();
            r1.insert(peer, round1::Package::new(big, *pkg.proof_of_knowledge()));
            let sec = run.r1_secret[&me].clone();
            no_panic("C14", move || {
                let _ = dkg::part2(sec, &r1);
            })
        }
        1 => {
            let ids: std::collections::BTreeSet<Id<C>> = [me].into_iter().collect();
            no_panic("C14", move || {
                let _ = PublicKeyPackage::<C>::from_commitment(&ids, &big);
            })
        }
        _ => {
            // the share the peer addressed to us, with the padded commitment
            let share = *run.r2_pkg[&peer][&me].signing_share();
            let ss = SecretShare::<C>::new(me, share, big);
            no_panic("C14", move || {
                let _ = KeyPackage::<C>::try_from(ss);
            })
        }
    }
}
