//! C12 — wire encodings round-trip, are canonical, and reject everything else.

use crate::common::*;
use crate::engine::*;
use crate::suites::*;
use crate::tape::{Sm, Tape};
use crate::{dispatch, ensure};
use frost_core as frost;
use frost_core::keys::dkg;
use frost_core::keys::refresh;
use frost_core::keys::repairable::{repair_share_part1, repair_share_part2, Delta, Sigma};
use frost_core::keys::{CoefficientCommitment, KeyPackage, PublicKeyPackage, SecretShare, SigningShare, VerifiableSecretSharingCommitment, VerifyingShare};
use frost_core::round1::{Nonce, NonceCommitment, SigningCommitments, SigningNonces};
use frost_core::round2::SignatureShare;
use frost_core::{Signature, SigningKey, SigningPackage, VerifyingKey};
use frost_rerandomized::Randomizer;
use proptest::prelude::*;
use serde::{Deserialize, Serialize};
use serde_json::json;

pub struct C12;

#[derive(Clone, Debug, Serialize, Deserialize)]
pub enum Case {
    /// every wire type produced by real protocol runs round-trips (binary and JSON)
    Values { shape: Shape, ids: IdSpec, seed: u64 },
    /// byte strings for the fixed-size primitives: class 0 catalogue, 1 random, 2 bit flips, 3 tag sweeps, 4 byte replacement
    Primitives { class: u8, seed: u64 },
    /// packages: wrong version, foreign suite id, embedded primitive replaced by catalogue entries, bit flips of fixed-layout packages
    Packages { seed: u64 },
    /// raw input of the fz_decode fuzz target (corpus / crash replay); same shape as C14's raw case
    RawDecode { hex: String },
}

impl Property for C12 {
    type Case = Case;
    fn id(&self) -> &'static str {
        "C12"
    }
    fn level(&self) -> &'static str {
        "exploration"
    }
    fn rule(&self) -> String {
        "values: every wire type (identifiers, shares, commitments, nonces, keys, signatures, repair values, randomizers and the packages of \
         signing, dealer keygen, DKG, refresh incl. the pre-3.0 public key package) taken from generated protocol runs is encoded and \
         decoded in postcard and JSON. bytes: for every fixed-size primitive decoder the reference's catalogue of invalid encodings, random \
         strings of the right length, EVERY single-bit flip of valid encodings, EVERY value of the first and of the last byte, sampled byte \
         replacements, wrong lengths; accept/reject is compared with the independent Python decoder and every accepted string must \
         re-encode to itself. packages: every version 1..255, every other suite's binary and JSON id, every embedded primitive replaced by \
         every catalogue entry, every single-bit flip of the fixed-layout packages. One evaluation per value and per byte string. \
         non-trivial = any byte string / value other than the repository's snapshot encodings (i.e. all of them); distinct = distinct \
         (suite, type, mutation descriptor) tuples"
            .into()
    }
    fn assumptions(&self) -> Vec<String> {
        vec![
            "frostref.py's DeserializeScalar/DeserializeElement (written from RFC 9591 §6, RFC 8032, RFC 9496, SEC1) decide which byte strings are valid".into(),
            "postcard accepting trailing bytes / over-long varints on variable-layout packages is outside the claim (fixed-size encodings and right-length byte strings) and only counted".into(),
            "Taproot signatures are compared modulo the sign of R (x-only encoding)".into(),
        ]
    }
    fn plan(&self, suite: SuiteId, tier: Tier) -> Vec<(u32, u32)> {
        let slow = suite.slow();
        match tier {
            Tier::Quick => vec![(0, if slow { 6 } else { 30 }), (10, 1), (11, if slow { 2 } else { 6 }), (12, if slow { 1 } else { 3 }), (13, if slow { 1 } else { 3 }), (14, if slow { 2 } else { 6 }), (20, if slow { 2 } else { 6 })],
            Tier::Thorough => vec![(0, if slow { 100 } else { 600 }), (10, 2), (11, if slow { 30 } else { 150 }), (12, if slow { 10 } else { 60 }), (13, if slow { 10 } else { 60 }), (14, if slow { 30 } else { 150 }), (20, if slow { 30 } else { 150 })],
        }
    }
    fn chunk(&self, suite: SuiteId) -> u32 {
        if suite.slow() { 1 } else { 3 }
    }
    fn max_shrink_iters(&self) -> u32 {
        32
    }
    fn strategy(&self, suite: SuiteId, tier: Tier, stratum: u32) -> BoxedStrategy<Case> {
        match stratum {
            0 => {
                let nmax = match (tier, suite.slow()) {
                    (Tier::Quick, false) => 6,
                    (Tier::Quick, true) => 4,
                    (Tier::Thorough, false) => 9,
                    (Tier::Thorough, true) => 5,
                };
                (shape_strategy(nmax), idspec_strategy(None), any::<u64>()).prop_map(|(shape, ids, seed)| Case::Values { shape, ids, seed }).boxed()
            }
            20 => any::<u64>().prop_map(|seed| Case::Packages { seed }).boxed(),
            s => {
                let class = (s - 10) as u8;
                any::<u64>().prop_map(move |seed| Case::Primitives { class, seed }).boxed()
            }
        }
    }
    fn required_labels(&self, tier: Tier) -> Vec<(String, u64)> {
        let m = tier.pick(6, 60);
        vec![
            ("values:run".into(), m * 6),
            ("type:PublicKeyPackage-legacy".into(), m),
            ("type:refresh-round1-Package".into(), m),
            ("vss-commitment:single-entry".into(), m),
            ("json:member-removed".into(), m),
            ("bytes:catalogue".into(), 6),
            ("bytes:random".into(), m),
            ("bytes:bitflip".into(), m),
            ("bytes:tagsweep".into(), m),
            ("pkg:version".into(), m),
            ("pkg:foreign-suite".into(), m),
            ("pkg:embedded-invalid".into(), m),
            ("accepted-mutant-reencodes".into(), 1),
        ]
    }
    fn check(&self, suite: SuiteId, case: &Case, ctx: &mut Ctx) -> CheckResult {
        dispatch!(suite, check(case, ctx))
    }
    fn extra(&self, tier: Tier, seed: u64, _known: &Known, out: &mut ExtraOut) {
        // the decode fuzz body carries the C12 relations (accepted => canonical / round-trips) as oracle
        crate::props::c14::corpus_replay_one("C12", "decode", out);
        if tier == Tier::Thorough {
            crate::props::c14::fuzz_campaign("C12", "fz_decode", seed ^ 0x12, 300, out);
        }
    }
}

fn check<C: Suite>(case: &Case, ctx: &mut Ctx) -> CheckResult {
    match case {
        Case::Values { shape, ids, seed } => values::<C>(*shape, *ids, *seed, ctx),
        Case::Primitives { class, seed } => primitives::<C>(*class, *seed, ctx),
        Case::Packages { seed } => packages::<C>(*seed, ctx),
        Case::RawDecode { hex } => {
            let b = hex::decode(hex).map_err(|_| inconclusive("bad hex in raw case"))?;
            ctx.eval(&format!("raw-decode,{:x}", fnv(hex)), true);
            crate::props::c14::no_panic("C12", || crate::fuzz_entry::decode(&b))
        }
    }
}

// ---------------------------------------------------------------------------------------------
// round trips of values

macro_rules! rt_pkg {
    ($ctx:expr, $name:expr, $T:ty, $v:expr) => {{
        let v: &$T = $v;
        $ctx.eval(&format!("value,{}", $name), true);
        $ctx.label(&format!("type:{}", $name));
        match v.serialize() {
            Ok(b) => match <$T>::deserialize(&b) {
                Ok(v2) => {
                    ensure!($ctx, v2 == *v, "C12/binary-roundtrip-changes-value", "{}: decode(encode(v)) != v (binary)", $name);
                    let b2 = v2.serialize().unwrap_or_default();
                    ensure!($ctx, b2 == b, "C12/binary-roundtrip-changes-bytes", "{}: re-encoding differs", $name);
                }
                Err(e) => $ctx.fail("C12/own-encoding-rejected", format!("{}: binary encoding of a real value does not decode: {e:?}", $name))?,
            },
            Err(e) => $ctx.fail("C12/value-does-not-encode", format!("{}: real value does not encode: {e:?}", $name))?,
        }
        match serde_json::to_string(v) {
            Ok(s) => match json_all_routes::<$T>(&s) {
                // equality by the library's PartialEq AND by the binary encodings (a PartialEq that overlooks a field must not hide a lost field)
                Ok(v2) => ensure!($ctx, v2 == *v && v2.serialize().ok() == v.serialize().ok(), "C12/json-roundtrip-changes-value", "{}: decode(encode(v)) != v (JSON)", $name),
                Err(e) => $ctx.fail("C12/own-encoding-rejected", format!("{}: JSON encoding of a real value does not decode: {e}: {s}", $name))?,
            },
            Err(e) => $ctx.fail("C12/value-does-not-encode", format!("{}: real value does not encode as JSON: {e}", $name))?,
        }
        // a JSON document that lacks a member (top level, or inside the header) is not an encoding of the type:
        // it is rejected. Only `min_signers` of the public key package is documented as optional (pre-3.0 form).
        if let Ok(serde_json::Value::Object(doc)) = serde_json::to_value(v) {
            for key in doc.keys() {
                if key == "min_signers" && $name.starts_with("PublicKeyPackage") {
                    continue;
                }
                let mut d2 = doc.clone();
                d2.remove(key);
                $ctx.label("json:member-removed");
                let r = serde_json::from_value::<$T>(serde_json::Value::Object(d2.clone()));
                ensure!($ctx, r.is_err(), "C12/json-missing-member-accepted", "{}: a JSON document without the member '{}' was accepted", $name, key);
                let r = serde_json::from_str::<$T>(&serde_json::Value::Object(d2).to_string());
                ensure!($ctx, r.is_err(), "C12/json-missing-member-accepted", "{}: a JSON text without the member '{}' was accepted", $name, key);
            }
            if let Some(serde_json::Value::Object(h)) = doc.get("header") {
                for key in h.keys() {
                    let mut h2 = h.clone();
                    h2.remove(key);
                    let mut d2 = doc.clone();
                    d2.insert("header".into(), serde_json::Value::Object(h2));
                    let r = serde_json::from_value::<$T>(serde_json::Value::Object(d2));
                    ensure!($ctx, r.is_err(), "C12/json-missing-member-accepted", "{}: a JSON document whose header lacks '{}' was accepted", $name, key);
                }
            }
        }
    }};
}

/// primitives with an infallible serialize() -> Vec<u8>
macro_rules! rt_prim {
    ($ctx:expr, $name:expr, $T:ty, $v:expr, $len:expr) => {{
        let v: &$T = $v;
        $ctx.eval(&format!("value,{}", $name), true);
        $ctx.label(&format!("type:{}", $name));
        let b = v.serialize();
        ensure!($ctx, b.len() == $len, "C12/encoding-length", "{}: encoding has {} bytes, expected {}", $name, b.len(), $len);
        match <$T>::deserialize(&b) {
            Ok(v2) => ensure!($ctx, v2 == *v && v2.serialize() == b, "C12/binary-roundtrip-changes-value", "{}: decode(encode(v)) != v", $name),
            Err(e) => $ctx.fail("C12/own-encoding-rejected", format!("{}: encoding of a real value does not decode: {e:?}", $name))?,
        }
        match serde_json::to_string(v) {
            Ok(s) => match json_all_routes::<$T>(&s) {
                Ok(v2) => ensure!($ctx, v2 == *v, "C12/json-roundtrip-changes-value", "{}: decode(encode(v)) != v (JSON)", $name),
                Err(e) => $ctx.fail("C12/own-encoding-rejected", format!("{}: JSON encoding does not decode: {e}: {s}", $name))?,
            },
            Err(e) => $ctx.fail("C12/value-does-not-encode", format!("{}: does not encode as JSON: {e}", $name))?,
        }
    }};
}
/// primitives with serialize() -> Result<Vec<u8>>
macro_rules! rt_prim_e {
    ($ctx:expr, $name:expr, $T:ty, $v:expr, $len:expr) => {{
        let v: &$T = $v;
        $ctx.eval(&format!("value,{}", $name), true);
        $ctx.label(&format!("type:{}", $name));
        match v.serialize() {
            Ok(b) => {
                ensure!($ctx, b.len() == $len, "C12/encoding-length", "{}: encoding has {} bytes, expected {}", $name, b.len(), $len);
                match <$T>::deserialize(&b) {
                    Ok(v2) => ensure!($ctx, v2 == *v && v2.serialize().ok() == Some(b.clone()), "C12/binary-roundtrip-changes-value", "{}: decode(encode(v)) != v", $name),
                    Err(e) => $ctx.fail("C12/own-encoding-rejected", format!("{}: encoding of a real value does not decode: {e:?}", $name))?,
                }
            }
            Err(e) => $ctx.fail("C12/value-does-not-encode", format!("{}: real value does not encode: {e:?}", $name))?,
        }
        match serde_json::to_string(v) {
            Ok(s) => match json_all_routes::<$T>(&s) {
                Ok(v2) => ensure!($ctx, v2 == *v, "C12/json-roundtrip-changes-value", "{}: decode(encode(v)) != v (JSON)", $name),
                Err(e) => $ctx.fail("C12/own-encoding-rejected", format!("{}: JSON encoding does not decode: {e}: {s}", $name))?,
            },
            Err(e) => $ctx.fail("C12/value-does-not-encode", format!("{}: does not encode as JSON: {e}", $name))?,
        }
    }};
}

fn values<C: Suite>(shape: Shape, ids: IdSpec, seed: u64, ctx: &mut Ctx) -> CheckResult {
    let shape = Shape { n: shape.n.max(3), t: shape.t.clamp(2, shape.n.max(3) - 1) };
    let (n, t) = (shape.n as usize, shape.t as usize);
    let (ns, ne) = (sc_len::<C>(), el_len::<C>());
    ctx.label("values:run");
    let mut rng = Sm(seed ^ 0xc12);
    // dealer material
    let keys = dealer_keys::<C>(shape, ids, KeySource::Split, seed, "C12")?;
    let some_id = keys.ids[rng.below(n as u64) as usize];
    let kp = &keys.kps[&some_id];
    let sshare = &keys.secret_shares.as_ref().unwrap()[&some_id];
    for id in &keys.ids {
        rt_prim!(ctx, "Identifier", Id<C>, id, ns);
    }
    rt_prim!(ctx, "SigningShare", SigningShare<C>, kp.signing_share(), ns);
    rt_prim_e!(ctx, "VerifyingShare", VerifyingShare<C>, kp.verifying_share(), ne);
    rt_prim_e!(ctx, "VerifyingKey", VerifyingKey<C>, kp.verifying_key(), ne);
    {
        // SigningKey has no PartialEq on secret content through serde; round trip through bytes
        let sk = keys.signing_key.as_ref().unwrap();
        ctx.eval("value,SigningKey", true);
        ctx.label("type:SigningKey");
        let b = sk.serialize();
        match SigningKey::<C>::deserialize(&b) {
            Ok(s2) => ensure!(ctx, s2 == *sk && s2.serialize() == b && b.len() == ns, "C12/binary-roundtrip-changes-value", "SigningKey round trip"),
            Err(e) => ctx.fail("C12/own-encoding-rejected", format!("SigningKey encoding does not decode: {e:?}"))?,
        }
    }
    for cc in sshare.commitment().coefficients() {
        rt_prim_e!(ctx, "CoefficientCommitment", CoefficientCommitment<C>, cc, ne);
    }
    // VSS commitment: list form, whole form and JSON - the dealer's vector (t entries) and every shorter
    // non-empty vector (refresh commitments have t-1 entries, a single one for t = 2)
    vss_roundtrip::<C>(ctx, sshare.commitment(), "dealer")?;
    for l in 1..t {
        let c = VerifiableSecretSharingCommitment::<C>::new(sshare.commitment().coefficients()[..l].to_vec());
        vss_roundtrip::<C>(ctx, &c, "prefix")?;
    }
    rt_pkg!(ctx, "SecretShare", SecretShare<C>, sshare);
    rt_pkg!(ctx, "KeyPackage", KeyPackage<C>, kp);
    rt_pkg!(ctx, "PublicKeyPackage", PublicKeyPackage<C>, &keys.pubkeys);
    {
        // pre-3.0 form: no min_signers
        let legacy = PublicKeyPackage::<C>::new(keys.pubkeys.verifying_shares().clone(), *keys.pubkeys.verifying_key(), None);
        rt_pkg!(ctx, "PublicKeyPackage-legacy", PublicKeyPackage<C>, &legacy);
        let b = legacy.serialize().map_err(|e| inconclusive(format!("{e:?}")))?;
        let full = keys.pubkeys.serialize().map_err(|e| inconclusive(format!("{e:?}")))?;
        if b.len() < full.len() && full.starts_with(&b) {
            ctx.info("legacy-public-key-package-is-prefix-of-3.0-encoding");
        }
        match PublicKeyPackage::<C>::deserialize(&b) {
            Ok(p) => ensure!(ctx, p.min_signers().is_none(), "C12/legacy-form", "legacy public key package decodes with min_signers {:?}", p.min_signers()),
            Err(e) => ctx.fail("C12/own-encoding-rejected", format!("legacy public key package does not decode: {e:?}"))?,
        }
    }
    // signing session
    let sub = make_subset(n, t, SubsetSpec { class: SubsetClass::Scattered, extra: (rng.next() & 0xffff) as u16, seed: rng.next() });
    let signers: Vec<Id<C>> = sub.iter().map(|i| keys.ids[*i]).collect();
    let mlen = rng.below(40) as usize;
    let msg = rng.bytes(mlen);
    let sess = run_session::<C>(&keys.kps, &signers, &msg, rng.next(), "C12")?;
    let sid = signers[0];
    rt_prim!(ctx, "Nonce", Nonce<C>, sess.nonces[&sid].hiding(), ns);
    rt_prim!(ctx, "Nonce", Nonce<C>, sess.nonces[&sid].binding(), ns);
    rt_prim_e!(ctx, "NonceCommitment", NonceCommitment<C>, sess.commitments[&sid].hiding(), ne);
    rt_prim_e!(ctx, "NonceCommitment", NonceCommitment<C>, sess.commitments[&sid].binding(), ne);
    rt_pkg!(ctx, "SigningNonces", SigningNonces<C>, &sess.nonces[&sid]);
    rt_pkg!(ctx, "SigningCommitments", SigningCommitments<C>, &sess.commitments[&sid]);
    rt_pkg!(ctx, "SigningPackage", SigningPackage<C>, &sess.package);
    for id in &signers {
        rt_prim!(ctx, "SignatureShare", SignatureShare<C>, &sess.shares[id], ns);
    }
    match frost::aggregate(&sess.package, &sess.shares, &keys.pubkeys) {
        Ok(sig) => {
            ctx.eval("value,Signature", true);
            ctx.label("type:Signature");
            let b = sig_bytes::<C>(&sig)?;
            let want_len = if C::SID.taproot() { 64 } else { ne + ns };
            ensure!(ctx, b.len() == want_len, "C12/encoding-length", "signature has {} bytes, expected {want_len}", b.len());
            match Signature::<C>::deserialize(&b) {
                Ok(s2) => {
                    // Taproot: equality modulo the sign of R: compare the encodings
                    let b2 = sig_bytes::<C>(&s2)?;
                    ensure!(ctx, b2 == b && (C::SID.taproot() || s2 == sig), "C12/binary-roundtrip-changes-value", "Signature round trip");
                }
                Err(e) => ctx.fail("C12/own-encoding-rejected", format!("signature encoding does not decode: {e:?}"))?,
            }
            let js = serde_json::to_string(&sig).map_err(|e| inconclusive(format!("{e}")))?;
            match serde_json::from_str::<Signature<C>>(&js) {
                Ok(s2) => ensure!(ctx, sig_bytes::<C>(&s2)? == b, "C12/json-roundtrip-changes-value", "Signature JSON round trip"),
                Err(e) => ctx.fail("C12/own-encoding-rejected", format!("signature JSON does not decode: {e}"))?,
            }
        }
        Err(e) => return ctx.fail("C12/harness-session", format!("honest aggregate failed: {e:?}")),
    }
    // randomizer
    {
        let (r, rseed) = Randomizer::<C>::new_from_commitments(Tape::random(rng.next()), sess.package.signing_commitments()).map_err(|e| inconclusive(format!("{e:?}")))?;
        ensure!(ctx, rseed.len() == ns, "C12/encoding-length", "randomizer seed has {} bytes", rseed.len());
        rt_prim!(ctx, "Randomizer", Randomizer<C>, &r, ns);
    }
    // repair values
    {
        let helpers: Vec<Id<C>> = keys.ids[..t].to_vec();
        let target = keys.ids[n - 1];
        let d = repair_share_part1::<C, _>(&helpers, &keys.kps[&helpers[0]], &mut Tape::random(rng.next()), target).map_err(|e| inconclusive(format!("{e:?}")))?;
        for v in d.values() {
            rt_prim!(ctx, "Delta", Delta<C>, v, ns);
        }
        let s = repair_share_part2::<C>(&d.values().copied().collect::<Vec<_>>());
        rt_prim!(ctx, "Sigma", Sigma<C>, &s, ns);
    }
    // DKG
    let run = dkg_rounds::<C>(shape, &keys.ids, rng.next(), "C12")?;
    let me = keys.ids[rng.below(n as u64) as usize];
    rt_pkg!(ctx, "dkg-round1-Package", dkg::round1::Package<C>, &run.r1_pkg[&me]);
    rt_pkg!(ctx, "dkg-round1-SecretPackage", dkg::round1::SecretPackage<C>, &run.r1_secret[&me]);
    rt_pkg!(ctx, "dkg-round2-SecretPackage", dkg::round2::SecretPackage<C>, &run.r2_secret[&me]);
    for p in run.r2_pkg[&me].values() {
        rt_pkg!(ctx, "dkg-round2-Package", dkg::round2::Package<C>, p);
    }
    {
        let (r1, r2) = dkg_inputs_for(&run, &me);
        let (kp3, pk3) = dkg::part3(&run.r2_secret[&me], &r1, &r2).map_err(|e| Failure { key: "C12/harness-dkg".into(), msg: format!("{e:?}") })?;
        rt_pkg!(ctx, "KeyPackage", KeyPackage<C>, &kp3);
        rt_pkg!(ctx, "PublicKeyPackage", PublicKeyPackage<C>, &pk3);
    }
    // refresh variants (commitments without their identity entry)
    {
        let (rshares, rpk) = refresh::compute_refreshing_shares::<C, _>(keys.pubkeys.clone(), &keys.ids, &mut Tape::random(rng.next())).map_err(|e| inconclusive(format!("{e:?}")))?;
        rt_pkg!(ctx, "refresh-SecretShare", SecretShare<C>, &rshares[0]);
        vss_roundtrip::<C>(ctx, rshares[0].commitment(), "dealer-refresh")?;
        rt_pkg!(ctx, "PublicKeyPackage", PublicKeyPackage<C>, &rpk);
        let rr = crate::props::c10::dkg_refresh_rounds::<C>(&keys.ids, shape.t, rng.next(), "C12")?;
        rt_pkg!(ctx, "refresh-round1-Package", dkg::round1::Package<C>, &rr.r1_pkg[&me]);
        vss_roundtrip::<C>(ctx, rr.r1_pkg[&me].commitment(), "distributed-refresh")?;
        rt_pkg!(ctx, "refresh-round1-SecretPackage", dkg::round1::SecretPackage<C>, &rr.r1_secret[&me]);
        rt_pkg!(ctx, "refresh-round2-SecretPackage", dkg::round2::SecretPackage<C>, &rr.r2_secret[&me]);
        for p in rr.r2_pkg[&me].values() {
            rt_pkg!(ctx, "refresh-round2-Package", dkg::round2::Package<C>, p);
        }
    }
    Ok(())
}

// ---------------------------------------------------------------------------------------------
// byte strings for fixed-size primitives

type Dec = Box<dyn Fn(&[u8]) -> Option<Vec<u8>>>;

/// (name, decoder returning the re-encoding of an accepted string, rejects-zero)
fn scalar_decoders<C: Suite>() -> Vec<(&'static str, Dec, bool)> {
    vec![
        ("SigningShare", Box::new(|b| SigningShare::<C>::deserialize(b).ok().map(|v| v.serialize())), false),
        ("Nonce", Box::new(|b| Nonce::<C>::deserialize(b).ok().map(|v| v.serialize())), false),
        ("SignatureShare", Box::new(|b| SignatureShare::<C>::deserialize(b).ok().map(|v| v.serialize())), false),
        ("Delta", Box::new(|b| Delta::<C>::deserialize(b).ok().map(|v| v.serialize())), false),
        ("Sigma", Box::new(|b| Sigma::<C>::deserialize(b).ok().map(|v| v.serialize())), false),
        ("Randomizer", Box::new(|b| Randomizer::<C>::deserialize(b).ok().map(|v| v.serialize())), false),
        ("Identifier", Box::new(|b| Id::<C>::deserialize(b).ok().map(|v| v.serialize())), true),
        ("SigningKey", Box::new(|b| SigningKey::<C>::deserialize(b).ok().map(|v| v.serialize())), true),
    ]
}
fn element_decoders<C: Suite>() -> Vec<(&'static str, Dec)> {
    vec![
        ("VerifyingShare", Box::new(|b| VerifyingShare::<C>::deserialize(b).ok().and_then(|v| v.serialize().ok()))),
        ("VerifyingKey", Box::new(|b| VerifyingKey::<C>::deserialize(b).ok().and_then(|v| v.serialize().ok()))),
        ("NonceCommitment", Box::new(|b| NonceCommitment::<C>::deserialize(b).ok().and_then(|v| v.serialize().ok()))),
        ("CoefficientCommitment", Box::new(|b| CoefficientCommitment::<C>::deserialize(b).ok().and_then(|v| v.serialize().ok()))),
    ]
}

pub struct Catalog {
    pub scalars: Vec<(String, Vec<u8>)>,
    pub elements: Vec<(String, Vec<u8>)>,
}
pub fn catalog<C: Suite>(ctx: &mut Ctx) -> Result<Catalog, Failure> {
    let r = ctx.py.call(&json!({"op":"catalog","suite":C::SID.name()}))?;
    let mut c = Catalog { scalars: vec![], elements: vec![] };
    for it in r["items"].as_array().cloned().unwrap_or_default() {
        let what = it[0].as_str().unwrap_or("");
        let kind = it[1].as_str().unwrap_or("").to_string();
        let b = hex::decode(it[2].as_str().unwrap_or("")).unwrap_or_default();
        if what == "scalar" {
            c.scalars.push((kind, b));
        } else {
            c.elements.push((kind, b));
        }
    }
    if c.scalars.len() < 8 || c.elements.len() < 8 {
        return Err(inconclusive("reference catalogue is unexpectedly small"));
    }
    Ok(c)
}

/// judge one byte string against all decoders of its kind. `ref_ok`: verdict of the reference
/// decoder (None = not asked: only canonicity is checked).
fn judge_scalar<C: Suite>(ctx: &mut Ctx, decs: &[(&'static str, Dec, bool)], b: &[u8], ref_ok: Option<(bool, bool)>, what: &str) -> CheckResult {
    for (name, dec, nonzero) in decs {
        ctx.eval(&format!("bytes,{name},{what}"), true);
        let got = dec(b);
        if let Some(re) = &got {
            ensure!(ctx, re == b, "C12/non-canonical-scalar-accepted", "{name}::deserialize accepted {} ({what}) which re-encodes as {}: two byte strings for one value", hex::encode(b), hex::encode(re));
            if b.len() == sc_len::<C>() {
                ctx.label("accepted-mutant-reencodes");
            }
        }
        if let Some((ok, zero)) = ref_ok {
            let want = ok && !(*nonzero && zero);
            if want {
                ensure!(ctx, got.is_some(), "C12/valid-scalar-rejected", "{name}::deserialize rejected the valid scalar encoding {} ({what})", hex::encode(b));
            } else {
                ensure!(ctx, got.is_none(), "C12/invalid-scalar-accepted", "{name}::deserialize accepted {} ({what}); the RFC 9591 decoder rejects it{}", hex::encode(b), if ok { " (zero)" } else { "" });
            }
        }
    }
    Ok(())
}
fn judge_element<C: Suite>(ctx: &mut Ctx, decs: &[(&'static str, Dec)], b: &[u8], ref_ok: Option<bool>, what: &str) -> CheckResult {
    for (name, dec) in decs {
        ctx.eval(&format!("bytes,{name},{what}"), true);
        let got = dec(b);
        if let Some(re) = &got {
            ensure!(ctx, re == b, "C12/non-canonical-element-accepted", "{name}::deserialize accepted {} ({what}) which re-encodes as {}: two byte strings for one element", hex::encode(b), hex::encode(re));
            if b.len() == el_len::<C>() {
                ctx.label("accepted-mutant-reencodes");
            }
        }
        if let Some(ok) = ref_ok {
            if ok {
                ensure!(ctx, got.is_some(), "C12/valid-element-rejected", "{name}::deserialize rejected the valid element encoding {} ({what})", hex::encode(b));
            } else {
                ensure!(ctx, got.is_none(), "C12/invalid-element-accepted", "{name}::deserialize accepted {} ({what}); the RFC 9591 decoder rejects it", hex::encode(b));
            }
        }
    }
    // the signature decoder embeds an element and a scalar
    if b.len() == el_len::<C>() && !C::SID.taproot() {
        let mut s = b.to_vec();
        s.extend_from_slice(&sc_bytes::<C>(&one::<C>()));
        let got = Signature::<C>::deserialize(&s);
        ctx.eval(&format!("bytes,Signature.R,{what}"), true);
        if let Ok(sig) = &got {
            let re = sig.serialize().unwrap_or_default();
            ensure!(ctx, re == s, "C12/non-canonical-element-accepted", "Signature::deserialize accepted R = {} ({what}) which re-encodes differently", hex::encode(b));
        }
        if let Some(ok) = ref_ok {
            ensure!(ctx, got.is_ok() == ok, "C12/signature-decoder-disagrees", "Signature::deserialize {} R = {} ({what}) but the RFC decoder says valid={ok}", if got.is_ok() { "accepted" } else { "rejected" }, hex::encode(b));
        }
    }
    Ok(())
}

fn ask_ref<C: Suite>(ctx: &mut Ctx, kind: &str, items: &[Vec<u8>]) -> Result<Vec<(bool, bool)>, Failure> {
    let mut out = Vec::new();
    for chunk in items.chunks(256) {
        let req: Vec<serde_json::Value> = chunk.iter().map(|b| json!([kind, hex::encode(b)])).collect();
        let r = ctx.py.call(&json!({"op":"decode_many","suite":C::SID.name(),"items":req}))?;
        let res = r["results"].as_array().cloned().unwrap_or_default();
        if res.len() != chunk.len() {
            return Err(inconclusive("reference decode_many returned the wrong number of results"));
        }
        for (x, b) in res.iter().zip(chunk) {
            let ok = x[0].as_bool().unwrap_or(false);
            // the reference's own canonicity: an accepted string re-encodes to itself
            if ok && x[1].as_str() != Some(&hex::encode(b)) {
                return Err(inconclusive("reference decoder is not canonical"));
            }
            out.push((ok, x[2].as_bool().unwrap_or(false)));
        }
    }
    Ok(out)
}

fn valid_scalars<C: Suite>(rng: &mut Sm, k: usize) -> Vec<Vec<u8>> {
    let mut v: Vec<Vec<u8>> = (0..k).map(|_| sc_bytes::<C>(&sc_rand::<C>(rng.next()))).collect();
    v.push(sc_bytes::<C>(&one::<C>()));
    v.push(sc_bytes::<C>(&neg::<C>(one::<C>())));
    v
}
fn valid_elements<C: Suite>(rng: &mut Sm, k: usize) -> Vec<Vec<u8>> {
    let mut v: Vec<Vec<u8>> = (0..k).map(|_| el_bytes::<C>(&(gen_::<C>() * sc_rand_nonzero::<C>(rng.next()))).unwrap()).collect();
    v.push(el_bytes::<C>(&gen_::<C>()).unwrap());
    v
}

fn primitives<C: Suite>(class: u8, seed: u64, ctx: &mut Ctx) -> CheckResult {
    let sdecs = scalar_decoders::<C>();
    let edecs = element_decoders::<C>();
    let (ns, ne) = (sc_len::<C>(), el_len::<C>());
    let mut rng = Sm(seed ^ 0x12b);
    let quick = ctx.tier == Tier::Quick;
    match class {
        0 => {
            ctx.label("bytes:catalogue");
            let cat = catalog::<C>(ctx)?;
            for (kind, b) in &cat.scalars {
                let ok = kind.starts_with("ok:");
                let zero = kind == "ok:zero";
                judge_scalar::<C>(ctx, &sdecs, b, Some((ok, zero)), &format!("catalogue:{kind}"))?;
            }
            for (kind, b) in &cat.elements {
                judge_element::<C>(ctx, &edecs, b, Some(kind.starts_with("ok:")), &format!("catalogue:{kind}"))?;
            }
            // wrong lengths built from VALID encodings: a valid encoding followed by extra bytes, a valid encoding
            // followed by another valid encoding, and a valid encoding cut short must all be rejected
            for v in valid_scalars::<C>(&mut rng, 2) {
                for (what, b) in [("valid+1", [v.clone(), vec![0]].concat()), ("valid+valid", [v.clone(), v.clone()].concat()), ("valid-1", v[..v.len() - 1].to_vec())] {
                    judge_scalar::<C>(ctx, &sdecs, &b, Some((false, false)), &format!("wrong-length:{what}"))?;
                }
            }
            for v in valid_elements::<C>(&mut rng, 2) {
                for (what, b) in [("valid+1", [v.clone(), vec![0]].concat()), ("valid+valid", [v.clone(), v.clone()].concat()), ("valid-1", v[..v.len() - 1].to_vec())] {
                    judge_element::<C>(ctx, &edecs, &b, Some(false), &format!("wrong-length:{what}"))?;
                }
            }
            {
                let sk = SigningKey::<C>::new(&mut Tape::random(rng.next()));
                let sig = sk.sign(Tape::random(rng.next()), b"wrong length");
                let good = sig_bytes::<C>(&sig)?;
                ensure!(ctx, Signature::<C>::deserialize(&good).is_ok(), "C12/valid-signature-rejected", "a real signature does not decode");
                for (what, b) in [
                    ("valid+1", [good.clone(), vec![0]].concat()),
                    ("valid+7", [good.clone(), vec![7; 7]].concat()),
                    ("valid+valid", [good.clone(), good.clone()].concat()),
                    ("valid-1", good[..good.len() - 1].to_vec()),
                    ("valid-half", good[..good.len() / 2].to_vec()),
                ] {
                    ctx.eval(&format!("bytes,Signature,wrong-length:{what}"), true);
                    ensure!(ctx, Signature::<C>::deserialize(&b).is_err(), "C12/wrong-length-accepted", "Signature::deserialize accepted {} bytes ({what}; a signature has {} bytes)", b.len(), good.len());
                    // the serde forms carry the signature as a byte string / hex string of the same bytes
                    let js = format!("\"{}\"", hex::encode(&b));
                    ensure!(ctx, serde_json::from_str::<Signature<C>>(&js).is_err(), "C12/wrong-length-accepted", "JSON signature of {} bytes accepted ({what})", b.len());
                }
            }
            // Taproot signature: 64 bytes; wrong lengths and invalid halves
            if C::SID.taproot() {
                let g = el_bytes::<C>(&gen_::<C>()).unwrap();
                let one_b = sc_bytes::<C>(&one::<C>());
                let mut good = g[1..].to_vec();
                good.extend_from_slice(&one_b);
                ensure!(ctx, Signature::<C>::deserialize(&good).is_ok(), "C12/valid-signature-rejected", "64-byte BIP-340 signature rejected");
                for l in [0usize, 63, 65, 96, 128] {
                    let mut s = good.clone();
                    s.resize(l, 1);
                    ctx.eval(&format!("bytes,Signature,len-{l}"), true);
                    ensure!(ctx, Signature::<C>::deserialize(&s).is_err(), "C12/wrong-length-accepted", "Taproot Signature::deserialize accepted {l} bytes");
                }
                for (kind, b) in &cat.scalars {
                    if b.len() == 32 && !kind.starts_with("ok:") {
                        let mut s = g[1..].to_vec();
                        s.extend_from_slice(b);
                        ctx.eval(&format!("bytes,Signature.z,{kind}"), true);
                        ensure!(ctx, Signature::<C>::deserialize(&s).is_err(), "C12/invalid-scalar-accepted", "Taproot signature with z = {kind} accepted");
                    }
                }
                for (kind, b) in &cat.elements {
                    if b.len() == 33 && (kind.starts_with("x=") || kind.starts_with("x-not-on-curve")) {
                        let mut s = b[1..].to_vec();
                        s.extend_from_slice(&one_b);
                        ctx.eval(&format!("bytes,Signature.R,{kind}"), true);
                        ensure!(ctx, Signature::<C>::deserialize(&s).is_err(), "C12/invalid-element-accepted", "Taproot signature with R {kind} accepted");
                    }
                }
            } else {
                let g = el_bytes::<C>(&gen_::<C>()).unwrap();
                for (kind, b) in &cat.scalars {
                    if b.len() == ns && !kind.starts_with("ok:") {
                        let mut s = g.clone();
                        s.extend_from_slice(b);
                        ctx.eval(&format!("bytes,Signature.z,{kind}"), true);
                        ensure!(ctx, Signature::<C>::deserialize(&s).is_err(), "C12/invalid-scalar-accepted", "signature with z = {kind} accepted");
                    }
                }
                for l in [0usize, ne, ne + ns - 1, ne + ns + 1, 2 * (ne + ns)] {
                    let s = vec![2u8; l];
                    ctx.eval(&format!("bytes,Signature,len-{l}"), true);
                    ensure!(ctx, Signature::<C>::deserialize(&s).is_err(), "C12/wrong-length-accepted", "Signature::deserialize accepted {l} bytes");
                }
            }
        }
        1 => {
            ctx.label("bytes:random");
            let k = if quick { 150 } else { 400 };
            // scalars: uniformly random strings are mostly valid for the 252/256-bit orders, mostly invalid otherwise;
            // add strings close to the order (top bytes from the order's encoding, random tail)
            let order_minus_1 = sc_bytes::<C>(&neg::<C>(one::<C>()));
            let mut items: Vec<Vec<u8>> = Vec::new();
            for i in 0..k {
                let mut b = rng.bytes(ns);
                if i % 3 == 1 {
                    // copy the most significant half of order-1, randomise the rest
                    if C::LE {
                        b[ns / 2..].copy_from_slice(&order_minus_1[ns / 2..]);
                    } else {
                        b[..ns / 2].copy_from_slice(&order_minus_1[..ns / 2]);
                    }
                }
                if i % 3 == 2 && C::SID == SuiteId::Ed448 {
                    b[56] = 0;
                    b[55] &= 0x3f;
                }
                items.push(b);
            }
            let verdicts = ask_ref::<C>(ctx, "scalar", &items)?;
            for (b, v) in items.iter().zip(verdicts) {
                ctx.label(if v.0 { "random-scalar:valid" } else { "random-scalar:invalid" });
                judge_scalar::<C>(ctx, &sdecs, b, Some(v), "random")?;
            }
            let ke = if quick { if C::SID.slow() { 40 } else { 100 } } else { 250 };
            let mut items: Vec<Vec<u8>> = Vec::new();
            for i in 0..ke {
                let mut b = rng.bytes(ne);
                if !C::LE {
                    b[0] = [2u8, 3, 2, 3, 4, 5, 0, 6][i % 8];
                }
                if C::SID == SuiteId::Ed448 {
                    b[56] &= 0x80;
                }
                items.push(b);
            }
            let verdicts = ask_ref::<C>(ctx, "element", &items)?;
            for (b, v) in items.iter().zip(verdicts) {
                ctx.label(if v.0 { "random-element:valid" } else { "random-element:invalid" });
                judge_element::<C>(ctx, &edecs, b, Some(v.0), "random")?;
            }
        }
        2 => {
            // EVERY single-bit flip of valid encodings; the reference is asked for a sample (cost), canonicity is checked for all
            ctx.label("bytes:bitflip");
            let nval = if quick { 2 } else { 4 };
            for b0 in valid_scalars::<C>(&mut rng, nval) {
                let flips: Vec<Vec<u8>> = (0..ns * 8).map(|i| { let mut b = b0.clone(); b[i / 8] ^= 1 << (i % 8); b }).collect();
                let verdicts = ask_ref::<C>(ctx, "scalar", &flips)?;
                for (i, (b, v)) in flips.iter().zip(verdicts).enumerate() {
                    judge_scalar::<C>(ctx, &sdecs, b, Some(v), &format!("bitflip-{i}"))?;
                }
            }
            for b0 in valid_elements::<C>(&mut rng, nval) {
                let flips: Vec<Vec<u8>> = (0..ne * 8).map(|i| { let mut b = b0.clone(); b[i / 8] ^= 1 << (i % 8); b }).collect();
                // ask the reference for every 4th flip + all flips in the first and last byte
                let ask_idx: Vec<usize> = (0..flips.len()).filter(|i| i % 4 == 0 || *i < 8 || *i >= (ne - 1) * 8).collect();
                let asked: Vec<Vec<u8>> = ask_idx.iter().map(|i| flips[*i].clone()).collect();
                let verdicts = ask_ref::<C>(ctx, "element", &asked)?;
                let mut vmap = std::collections::BTreeMap::new();
                for (i, v) in ask_idx.iter().zip(verdicts) {
                    vmap.insert(*i, v.0);
                }
                for (i, b) in flips.iter().enumerate() {
                    judge_element::<C>(ctx, &edecs, b, vmap.get(&i).copied(), &format!("bitflip-{i}"))?;
                }
            }
        }
        3 => {
            // EVERY value of the first and of the last byte
            ctx.label("bytes:tagsweep");
            for b0 in valid_scalars::<C>(&mut rng, 1) {
                let mut items = Vec::new();
                for pos in [0, ns - 1] {
                    for v in 0..=255u8 {
                        let mut b = b0.clone();
                        b[pos] = v;
                        items.push(b);
                    }
                }
                let verdicts = ask_ref::<C>(ctx, "scalar", &items)?;
                for (k, (b, v)) in items.iter().zip(verdicts).enumerate() {
                    judge_scalar::<C>(ctx, &sdecs, b, Some(v), &format!("sweep-{}-{}", if k < 256 { "first" } else { "last" }, k % 256))?;
                }
            }
            for b0 in valid_elements::<C>(&mut rng, 1) {
                let mut items = Vec::new();
                for pos in [0, ne - 1] {
                    for v in 0..=255u8 {
                        let mut b = b0.clone();
                        b[pos] = v;
                        items.push(b);
                    }
                }
                let verdicts = ask_ref::<C>(ctx, "element", &items)?;
                for (k, (b, v)) in items.iter().zip(verdicts).enumerate() {
                    judge_element::<C>(ctx, &edecs, b, Some(v.0), &format!("sweep-{}-{}", if k < 256 { "first" } else { "last" }, k % 256))?;
                }
            }
        }
        _ => {
            // sampled single-byte replacements and wrong lengths (canonicity + reference)
            ctx.label("bytes:byte-replacement");
            let k = if quick { 60 } else { 200 };
            let vs = valid_scalars::<C>(&mut rng, 3);
            let mut items = Vec::new();
            for _ in 0..k {
                let mut b = vs[rng.below(vs.len() as u64) as usize].clone();
                let pos = rng.below(ns as u64) as usize;
                b[pos] = rng.next() as u8;
                items.push(b);
            }
            for l in [0usize, 1, ns - 1, ns + 1, 2 * ns] {
                items.push(rng.bytes(l));
            }
            let verdicts = ask_ref::<C>(ctx, "scalar", &items)?;
            for (b, v) in items.iter().zip(verdicts) {
                judge_scalar::<C>(ctx, &sdecs, b, Some(v), if b.len() == ns { "byte-replaced" } else { "wrong-length" })?;
            }
            let ve = valid_elements::<C>(&mut rng, 3);
            let mut items = Vec::new();
            for _ in 0..k / 2 {
                let mut b = ve[rng.below(ve.len() as u64) as usize].clone();
                let pos = rng.below(ne as u64) as usize;
                b[pos] = rng.next() as u8;
                items.push(b);
            }
            for l in [0usize, 1, ne - 1, ne + 1, 2 * ne] {
                items.push(rng.bytes(l));
            }
            let verdicts = ask_ref::<C>(ctx, "element", &items)?;
            for (b, v) in items.iter().zip(verdicts) {
                judge_element::<C>(ctx, &edecs, b, Some(v.0), if b.len() == ne { "byte-replaced" } else { "wrong-length" })?;
            }
        }
    }
    Ok(())
}

// ---------------------------------------------------------------------------------------------
// packages

/// (binary 4-byte id, JSON id string) of every suite
fn suite_ids() -> Vec<(SuiteId, Vec<u8>, String)> {
    fn one<C: Suite>() -> (SuiteId, Vec<u8>, String) {
        let (_, c) = frost::round1::commit::<C, _>(&SigningShare::<C>::new(crate::suites::one::<C>()), &mut Tape::random(1));
        let b = c.serialize().expect("commitments encode");
        (C::SID, b[1..5].to_vec(), C::ID.to_string())
    }
    ALL_SUITES.iter().map(|s| dispatch!(*s, one())).collect()
}

macro_rules! pkg_mutations {
    ($ctx:expr, $name:expr, $T:ty, $v:expr, $ids:expr) => {{
        let v: &$T = $v;
        let b = v.serialize().map_err(|e| inconclusive(format!("{e:?}")))?;
        // every wrong version
        $ctx.label("pkg:version");
        for ver in 1..=255u8 {
            let mut b2 = b.clone();
            b2[0] = ver;
            $ctx.eval(&format!("pkg,{},version-{ver}", $name), true);
            ensure!($ctx, <$T>::deserialize(&b2).is_err(), "C12/wrong-version-accepted", "{} with format version {ver} accepted (binary)", $name);
        }
        // every other suite's binary id
        $ctx.label("pkg:foreign-suite");
        for (sid, bin, idstr) in $ids.iter() {
            if *sid == C::SID {
                continue;
            }
            let mut b2 = b.clone();
            b2[1..5].copy_from_slice(bin);
            $ctx.eval(&format!("pkg,{},suite-{}", $name, sid.name()), true);
            ensure!($ctx, <$T>::deserialize(&b2).is_err(), "C12/foreign-suite-accepted", "{} carrying the ciphersuite id of {} accepted (binary)", $name, sid.name());
            // JSON
            let js = serde_json::to_string(v).map_err(|e| inconclusive(format!("{e}")))?;
            let js2 = js.replace(&format!("\"{}\"", C::ID), &format!("\"{}\"", idstr));
            if js2 != js {
                ensure!($ctx, serde_json::from_str::<$T>(&js2).is_err(), "C12/foreign-suite-accepted", "{} carrying the ciphersuite id of {} accepted (JSON)", $name, sid.name());
            }
        }
        let js = serde_json::to_string(v).map_err(|e| inconclusive(format!("{e}")))?;
        if js.contains("\"version\":0") {
            for ver in [1u32, 2, 255] {
                let js2 = js.replace("\"version\":0", &format!("\"version\":{ver}"));
                $ctx.eval(&format!("pkg,{},json-version-{ver}", $name), true);
                ensure!($ctx, serde_json::from_str::<$T>(&js2).is_err(), "C12/wrong-version-accepted", "{} with format version {ver} accepted (JSON)", $name);
            }
        }
        // truncation to every shorter length, and the empty string
        for l in 0..b.len() {
            if b.len() > 400 && l % 7 != 0 {
                continue;
            }
            $ctx.eval(&format!("pkg,{},truncate", $name), true);
            if <$T>::deserialize(&b[..l]).is_ok() {
                // only the legacy public key package may decode from a prefix (it *is* a prefix)
                ensure!($ctx, $name == "PublicKeyPackage", "C12/truncated-package-accepted", "{} truncated to {l} of {} bytes accepted", $name, b.len());
                $ctx.info("pubkey-package-prefix-decodes-as-legacy");
            }
        }
        b
    }};
}

fn packages<C: Suite>(seed: u64, ctx: &mut Ctx) -> CheckResult {
    let mut rng = Sm(seed ^ 0x12c);
    let ids = suite_ids();
    let (ns, ne) = (sc_len::<C>(), el_len::<C>());
    let shape = Shape { n: 3, t: 2 };
    let keys = dealer_keys::<C>(shape, IdSpec { style: IdStyle::Mixed, seed: rng.next() }, KeySource::Dealer, rng.next(), "C12")?;
    let me = keys.ids[0];
    let signers = vec![keys.ids[0], keys.ids[2]];
    let sess = run_session::<C>(&keys.kps, &signers, b"pkg", rng.next(), "C12")?;
    let run = dkg_rounds::<C>(shape, &keys.ids, rng.next(), "C12")?;
    let cat = catalog::<C>(ctx)?;

    let b_comm = pkg_mutations!(ctx, "SigningCommitments", SigningCommitments<C>, &sess.commitments[&me], ids);
    let b_nonces = pkg_mutations!(ctx, "SigningNonces", SigningNonces<C>, &sess.nonces[&me], ids);
    let _ = pkg_mutations!(ctx, "SigningPackage", SigningPackage<C>, &sess.package, ids);
    let b_kp = pkg_mutations!(ctx, "KeyPackage", KeyPackage<C>, &keys.kps[&me], ids);
    let _ = pkg_mutations!(ctx, "PublicKeyPackage", PublicKeyPackage<C>, &keys.pubkeys, ids);
    let b_ss = pkg_mutations!(ctx, "SecretShare", SecretShare<C>, &keys.secret_shares.as_ref().unwrap()[&me], ids);
    let b_r1 = pkg_mutations!(ctx, "dkg-round1-Package", dkg::round1::Package<C>, &run.r1_pkg[&me], ids);
    let b_r2 = pkg_mutations!(ctx, "dkg-round2-Package", dkg::round2::Package<C>, run.r2_pkg[&me].values().next().unwrap(), ids);
    // the serde form of SignatureShare (header + scalar) as JSON
    {
        let js = serde_json::to_string(&sess.shares[&me]).map_err(|e| inconclusive(format!("{e}")))?;
        for (sid, _, idstr) in &ids {
            if *sid != C::SID {
                let js2 = js.replace(&format!("\"{}\"", C::ID), &format!("\"{}\"", idstr));
                ctx.eval(&format!("pkg,SignatureShare,json-suite-{}", sid.name()), true);
                ensure!(ctx, serde_json::from_str::<SignatureShare<C>>(&js2).is_err(), "C12/foreign-suite-accepted", "SignatureShare JSON with the id of {} accepted", sid.name());
            }
        }
    }

    // ---- embedded primitives replaced by catalogue entries at their offset (structure-aware)
    ctx.label("pkg:embedded-invalid");
    let bad_elems: Vec<&(String, Vec<u8>)> = cat.elements.iter().filter(|(k, b)| !k.starts_with("ok:") && b.len() == ne).collect();
    let bad_scalars: Vec<&(String, Vec<u8>)> = cat.scalars.iter().filter(|(k, b)| !k.starts_with("ok:") && b.len() == ns).collect();
    let zero_b = sc_bytes::<C>(&zero::<C>());
    // SigningCommitments = header(5) | hiding(ne) | binding(ne)
    if b_comm.len() != 5 + 2 * ne || b_kp.len() != 5 + 2 * ns + 2 * ne + 1 {
        // the structure-aware offsets below assume the postcard layout header(5) | fields; a different layout
        // is not a violation of C12, it only voids this probe
        return Err(inconclusive(format!("unexpected package layout: SigningCommitments {} bytes, KeyPackage {} bytes", b_comm.len(), b_kp.len())));
    }
    for (kind, e) in &bad_elems {
        for off in [5, 5 + ne] {
            let mut b = b_comm.clone();
            b[off..off + ne].copy_from_slice(e);
            ctx.eval(&format!("pkg,SigningCommitments,embedded,{kind}@{off}"), true);
            ensure!(ctx, SigningCommitments::<C>::deserialize(&b).is_err(), "C12/invalid-element-accepted", "SigningCommitments with embedded invalid element ({kind}) accepted");
        }
    }
    // KeyPackage = header(5) | identifier(ns) | signing share(ns) | verifying share(ne) | verifying key(ne) | min_signers varint
    {
        let mut b = b_kp.clone();
        b[5..5 + ns].copy_from_slice(&zero_b);
        ctx.eval("pkg,KeyPackage,embedded,zero-identifier", true);
        ensure!(ctx, KeyPackage::<C>::deserialize(&b).is_err(), "C12/zero-identifier-accepted", "KeyPackage with a zero identifier accepted");
    }
    for (kind, s) in &bad_scalars {
        for off in [5, 5 + ns] {
            let mut b = b_kp.clone();
            b[off..off + ns].copy_from_slice(s);
            ctx.eval(&format!("pkg,KeyPackage,embedded,{kind}@{off}"), true);
            ensure!(ctx, KeyPackage::<C>::deserialize(&b).is_err(), "C12/invalid-scalar-accepted", "KeyPackage with embedded invalid scalar ({kind}) accepted");
        }
    }
    for (kind, e) in &bad_elems {
        for off in [5 + 2 * ns, 5 + 2 * ns + ne] {
            let mut b = b_kp.clone();
            b[off..off + ne].copy_from_slice(e);
            ctx.eval(&format!("pkg,KeyPackage,embedded,{kind}@{off}"), true);
            ensure!(ctx, KeyPackage::<C>::deserialize(&b).is_err(), "C12/invalid-element-accepted", "KeyPackage with embedded invalid element ({kind}) accepted");
        }
    }
    // SecretShare = header(5) | identifier | share | varint count | count * element
    {
        let mut b = b_ss.clone();
        b[5..5 + ns].copy_from_slice(&zero_b);
        ctx.eval("pkg,SecretShare,embedded,zero-identifier", true);
        ensure!(ctx, SecretShare::<C>::deserialize(&b).is_err(), "C12/zero-identifier-accepted", "SecretShare with a zero identifier accepted");
        for (kind, e) in &bad_elems {
            let off = 5 + 2 * ns + 1;
            let mut b = b_ss.clone();
            b[off..off + ne].copy_from_slice(e);
            ctx.eval(&format!("pkg,SecretShare,embedded,{kind}"), true);
            ensure!(ctx, SecretShare::<C>::deserialize(&b).is_err(), "C12/invalid-element-accepted", "SecretShare with embedded invalid commitment ({kind}) accepted");
        }
    }
    // dkg round1 package = header(5) | varint count | count * element | varint siglen | signature
    for (kind, e) in &bad_elems {
        let off = 6;
        let mut b = b_r1.clone();
        b[off..off + ne].copy_from_slice(e);
        ctx.eval(&format!("pkg,dkg-round1-Package,embedded,{kind}"), true);
        ensure!(ctx, dkg::round1::Package::<C>::deserialize(&b).is_err(), "C12/invalid-element-accepted", "round1::Package with embedded invalid commitment ({kind}) accepted");
    }
    // dkg round2 package = header(5) | share
    for (kind, s) in &bad_scalars {
        let mut b = b_r2.clone();
        b[5..5 + ns].copy_from_slice(s);
        ctx.eval(&format!("pkg,dkg-round2-Package,embedded,{kind}"), true);
        ensure!(ctx, dkg::round2::Package::<C>::deserialize(&b).is_err(), "C12/invalid-scalar-accepted", "round2::Package with embedded invalid scalar ({kind}) accepted");
    }

    // ---- every single-bit flip of the fixed-layout packages: accepted => canonical
    macro_rules! flips {
        ($name:expr, $T:ty, $b:expr) => {{
            let b0: &Vec<u8> = $b;
            for i in 0..b0.len() * 8 {
                let mut b = b0.clone();
                b[i / 8] ^= 1 << (i % 8);
                ctx.eval(&format!("pkg,{},bitflip-{i}", $name), true);
                if let Ok(v) = <$T>::deserialize(&b) {
                    let re = v.serialize().unwrap_or_default();
                    ensure!(ctx, re == b, "C12/non-canonical-package-accepted", "{}: bit flip {i} accepted but re-encodes differently", $name);
                    ctx.label("accepted-mutant-reencodes");
                }
            }
        }};
    }
    flips!("SigningCommitments", SigningCommitments<C>, &b_comm);
    flips!("dkg-round2-Package", dkg::round2::Package<C>, &b_r2);
    flips!("SigningNonces", SigningNonces<C>, &b_nonces);
    Ok(())
}

/// list / whole / JSON round trip of one VSS commitment vector
fn vss_roundtrip<C: Suite>(ctx: &mut Ctx, c: &VerifiableSecretSharingCommitment<C>, origin: &str) -> CheckResult {
    let ne = el_len::<C>();
    let l = c.coefficients().len();
    ctx.eval(&format!("value,VerifiableSecretSharingCommitment,{origin},{l}"), true);
    ctx.label("type:VerifiableSecretSharingCommitment");
    if l == 1 {
        ctx.label("vss-commitment:single-entry");
    }
    match c.serialize() {
        Ok(list) => match VerifiableSecretSharingCommitment::<C>::deserialize(list.clone()) {
            Ok(c2) => ensure!(ctx, c2 == *c && list.len() == l, "C12/binary-roundtrip-changes-value", "VSS commitment list round trip ({origin}, {l} entries)"),
            Err(e) => ctx.fail("C12/own-encoding-rejected", format!("VSS commitment list ({origin}, {l} entries) does not decode: {e:?}"))?,
        },
        Err(e) => ctx.fail("C12/value-does-not-encode", format!("VSS commitment does not encode: {e:?}"))?,
    }
    match c.serialize_whole() {
        Ok(w) => {
            ensure!(ctx, w.len() == l * ne, "C12/encoding-length", "serialize_whole length {}", w.len());
            match VerifiableSecretSharingCommitment::<C>::deserialize_whole(&w) {
                Ok(c2) => ensure!(ctx, c2 == *c, "C12/binary-roundtrip-changes-value", "VSS commitment whole round trip ({origin}, {l} entries)"),
                Err(e) => ctx.fail("C12/own-encoding-rejected", format!("VSS commitment (whole; {origin}, {l} entries) does not decode: {e:?}"))?,
            }
            // a whole encoding with a partial trailing element is refused
            let mut w2 = w.clone();
            w2.push(2);
            ensure!(ctx, VerifiableSecretSharingCommitment::<C>::deserialize_whole(&w2).is_err(), "C12/wrong-length-accepted", "deserialize_whole accepted a length that is not a multiple of the element length");
            ensure!(ctx, VerifiableSecretSharingCommitment::<C>::deserialize_whole(&w[..w.len() - 1]).is_err(), "C12/wrong-length-accepted", "deserialize_whole accepted a truncated encoding");
        }
        Err(e) => ctx.fail("C12/value-does-not-encode", format!("VSS commitment does not encode (whole): {e:?}"))?,
    }
    let js = serde_json::to_string(c).map_err(|e| inconclusive(format!("{e}")))?;
    match serde_json::from_str::<VerifiableSecretSharingCommitment<C>>(&js) {
        Ok(c2) => ensure!(ctx, c2 == *c, "C12/json-roundtrip-changes-value", "VSS commitment JSON round trip ({origin}, {l} entries)"),
        Err(e) => ctx.fail("C12/own-encoding-rejected", format!("VSS commitment JSON ({origin}, {l} entries) does not decode: {e}"))?,
    }
    Ok(())
}
