//! C16 — all secret randomness is drawn fresh from the caller's source and nowhere else.

use crate::common::*;
use crate::engine::*;
use crate::suites::*;
use crate::tape::{Sm, Tape, TapeSpec};
use crate::{dispatch, ensure};
use frost_core as frost;
use frost_core::keys::dkg;
use frost_core::keys::refresh;
use frost_core::keys::repairable::repair_share_part1;
use frost_core::keys::IdentifierList;
use frost_core::SigningKey;
use frost_rerandomized::RandomizedParams;
use proptest::prelude::*;
use serde::{Deserialize, Serialize};

pub struct C16;

#[derive(Clone, Debug, Serialize, Deserialize)]
pub struct Case {
    /// entry point 0..=9, see ENTRY
    pub entry: u8,
    pub shape: Shape,
    pub ids: IdSpec,
    pub tape_seed: u64,
    pub seed: u64,
}

pub const ENTRY: [&str; 10] = [
    "SigningKey::new",
    "generate_with_dealer",
    "split",
    "dkg::part1",
    "refresh_dkg_part1",
    "compute_refreshing_shares",
    "repair_share_part1",
    "RandomizedParams::new_from_commitments",
    "SigningKey::sign",
    "batch::Verifier::verify",
];

impl Property for C16 {
    type Case = Case;
    fn id(&self) -> &'static str {
        "C16"
    }
    fn level(&self) -> &'static str {
        "exploration"
    }
    fn rule(&self) -> String {
        "case = (suite, RNG-taking entry point out of 10, n, t, identifier style, tape seed). The entry point is run under a recording tape; \
         then (reproducible) again with the same tape: byte-identical result; (sensitive) with a disjoint tape: every secret-derived public \
         value (key, each of the t-1 coefficient commitments, proof-of-knowledge R, each free repair delta, each refreshing commitment, \
         randomizer seed, signature R) changes; (independent) once per recorded draw with only that draw's bytes changed: every such value \
         must change under some single-draw perturbation and no single-draw perturbation may change two values that must be independent; \
         (distinct) no two of them coincide within one call; (extreme) with one recorded draw at a time forced to 0xff..ff the call \
         still succeeds with pairwise distinct values; the number of draws is at least the number of secrets. One evaluation per \
         case. non-trivial = every case; distinct = distinct (suite, entry point, n, t) tuples"
            .into()
    }
    fn assumptions(&self) -> Vec<String> {
        vec![
            "secret values are observed through the public values derived from them (commitments G*a, R = G*k, the deltas themselves)".into(),
            "order and granularity of the implementation's RNG calls are not fixed by the oracle; extra draws are not a violation".into(),
            "batch blinders are not output: observed through the draw log (at least one draw per item) and, behaviourally, through C19's complementary-pair rejection".into(),
            "rejection-sampling retries (probability <= 2^-32 per scalar for P-256, 2^-128 otherwise) are ignored".into(),
        ]
    }
    fn plan(&self, suite: SuiteId, tier: Tier) -> Vec<(u32, u32)> {
        let per = match (tier, suite.slow()) {
            (Tier::Quick, false) => 150,
            (Tier::Quick, true) => 25,
            (Tier::Thorough, false) => 6000,
            (Tier::Thorough, true) => 600,
        };
        let mut v: Vec<(u32, u32)> = (0..10).map(|s| (s, per)).collect();
        // more than 64 secret values in one call: polynomials with 66..130 coefficients (dealer, split, DKG part 1, refresh part 1)
        for e in [1u32, 2, 3, 4] {
            v.push((100 + e, if suite.slow() { 1 } else { tier.pick(1, 4) }));
        }
        v
    }
    fn chunk(&self, suite: SuiteId) -> u32 {
        if suite.slow() { 2 } else { 10 }
    }
    fn strategy(&self, suite: SuiteId, tier: Tier, stratum: u32) -> BoxedStrategy<Case> {
        if stratum >= 100 {
            let entry = (stratum - 100) as u8;
            let ts: Vec<u16> = if suite.slow() { vec![66] } else { vec![66, 80, 130] };
            return (proptest::sample::select(ts), idspec_strategy(None), any::<u64>(), any::<u64>())
                .prop_map(move |(t, ids, tape_seed, seed)| Case { entry, shape: Shape { n: t + 1, t }, ids, tape_seed, seed })
                .boxed();
        }
        let entry = stratum as u8;
        let nmax = match (tier, suite.slow()) {
            (Tier::Quick, false) => 8,
            (Tier::Quick, true) => 5,
            (Tier::Thorough, false) => 14,
            (Tier::Thorough, true) => 7,
        };
        (shape_strategy(nmax), idspec_strategy(None), any::<u64>(), any::<u64>())
            .prop_map(move |(shape, ids, tape_seed, seed)| Case { entry, shape, ids, tape_seed, seed })
            .boxed()
    }
    fn required_labels(&self, tier: Tier) -> Vec<(String, u64)> {
        let m = tier.pick(30, 300);
        let mut v: Vec<(String, u64)> = ENTRY.iter().map(|e| (format!("entry:{e}"), m)).collect();
        v.push(("secrets>=4".into(), m));
        v.push(("extreme-draw".into(), m));
        v.push(("fresh-process".into(), 60));
        v.push(("secrets>64".into(), 8));
        v
    }
    fn check(&self, suite: SuiteId, case: &Case, ctx: &mut Ctx) -> CheckResult {
        dispatch!(suite, check(case, ctx))
    }
    fn extra(&self, _tier: Tier, seed: u64, _known: &Known, out: &mut ExtraOut) {
        fresh_process_stage(seed, out);
    }
}

/// what one execution of an entry point exposes
struct Obs {
    /// serialization of the whole result (for reproducibility)
    whole: Vec<u8>,
    /// public values that must each stem from their own fresh draw
    independent: Vec<(String, Vec<u8>)>,
    /// values that must NOT depend on the tape at all (e.g. G*key of `split`)
    fixed: Vec<(String, Vec<u8>)>,
    draws: Vec<(u64, u64)>,
    consumed: u64,
}

struct Setup<C: Suite> {
    shape: Shape,
    idv: Vec<Id<C>>,
    keys: Option<Keys<C>>,
    sk: SigningKey<C>,
    sess: Option<Session<C>>,
    helpers: Vec<Id<C>>,
    batch: Vec<(frost::VerifyingKey<C>, frost::Signature<C>, Vec<u8>)>,
}

fn run_entry<C: Suite>(entry: u8, st: &Setup<C>, spec: TapeSpec) -> Result<Obs, Failure> {
    let mut tape = Tape::new(spec);
    let e = |x: frost::Error<C>| Failure { key: "C16/entry-point-failed".into(), msg: format!("{}: {x:?}", ENTRY[entry as usize]) };
    let el = |x: &El<C>| el_bytes::<C>(x).unwrap_or_default();
    let (n, t) = (st.shape.n, st.shape.t);
    let mut obs = Obs { whole: vec![], independent: vec![], fixed: vec![], draws: vec![], consumed: 0 };
    match entry {
        0 => {
            let sk = SigningKey::<C>::new(&mut tape);
            obs.whole = sk.serialize();
            obs.independent.push(("key".into(), el(&frost::VerifyingKey::<C>::from(&sk).to_element())));
        }
        1 | 2 => {
            let list = IdentifierList::Custom(&st.idv);
            let (shares, pk) = if entry == 1 {
                frost::keys::generate_with_dealer::<C, _>(n, t, list, &mut tape).map_err(e)?
            } else {
                frost::keys::split(&st.sk, n, t, list, &mut tape).map_err(e)?
            };
            obs.whole = pk.serialize().map_err(e)?;
            for s in shares.values() {
                obs.whole.extend(s.serialize().map_err(e)?);
            }
            let comm = shares.values().next().unwrap().commitment().coefficients().to_vec();
            for (k, c) in comm.iter().enumerate() {
                if k == 0 {
                    if entry == 1 {
                        obs.independent.push(("key".into(), el(&c.value())));
                    } else {
                        obs.fixed.push(("G*key".into(), el(&c.value())));
                    }
                } else {
                    obs.independent.push((format!("coefficient-{k}"), el(&c.value())));
                }
            }
        }
        3 | 4 => {
            let me = st.idv[0];
            let (sec, pkg) = if entry == 3 {
                dkg::part1::<C, _>(me, n, t, &mut tape).map_err(e)?
            } else {
                refresh::refresh_dkg_part1::<C, _>(me, n, t, &mut tape).map_err(e)?
            };
            obs.whole = pkg.serialize().map_err(e)?;
            obs.whole.extend(sec.serialize().map_err(e)?);
            for (k, c) in pkg.commitment().coefficients().iter().enumerate() {
                let idx = if entry == 3 { k } else { k + 1 };
                obs.independent.push((if idx == 0 { "key".into() } else { format!("coefficient-{idx}") }, el(&c.value())));
            }
            obs.independent.push(("proof-R".into(), el(pkg.proof_of_knowledge().R())));
        }
        5 => {
            let keys = st.keys.as_ref().unwrap();
            let (shares, pk) = refresh::compute_refreshing_shares::<C, _>(keys.pubkeys.clone(), &st.idv, &mut tape).map_err(e)?;
            obs.whole = pk.serialize().map_err(e)?;
            for s in &shares {
                obs.whole.extend(s.serialize().map_err(e)?);
            }
            for (k, c) in shares[0].commitment().coefficients().iter().enumerate() {
                obs.independent.push((format!("refreshing-coefficient-{}", k + 1), el(&c.value())));
            }
        }
        6 => {
            let keys = st.keys.as_ref().unwrap();
            let me = st.helpers[0];
            let target = *keys.ids.iter().find(|i| !st.helpers.contains(i)).unwrap_or(&keys.ids[0]);
            let d = repair_share_part1::<C, _>(&st.helpers, &keys.kps[&me], &mut tape, target).map_err(e)?;
            for v in d.values() {
                obs.whole.extend(v.serialize());
            }
            // the |H|-1 free blinding values: every delta except the one that is determined by the others.
            // Which one is determined is not fixed by the oracle: any |H|-1 of them must be independent; we use
            // the criterion on all deltas but allow ONE delta to depend on every draw (the balancing one).
            for (j, v) in d.values().enumerate() {
                obs.independent.push((format!("delta-{j}"), v.serialize()));
            }
        }
        7 => {
            let keys = st.keys.as_ref().unwrap();
            let sess = st.sess.as_ref().unwrap();
            let (params, seed) = RandomizedParams::<C>::new_from_commitments(keys.pubkeys.verifying_key(), sess.package.signing_commitments(), &mut tape).map_err(e)?;
            obs.whole = seed.clone();
            obs.whole.extend(params.randomizer().serialize());
            obs.independent.push(("randomizer-seed".into(), seed));
        }
        8 => {
            let sig = st.sk.sign(&mut tape, b"c16 message");
            obs.whole = sig.serialize().map_err(e)?;
            obs.independent.push(("signature-R".into(), obs.whole[..obs.whole.len() - sc_len::<C>()].to_vec()));
        }
        _ => {
            let mut v = frost::batch::Verifier::<C>::new();
            for (vk, sig, msg) in &st.batch {
                v.queue(frost::batch::Item::<C>::new(*vk, *sig, msg).map_err(e)?);
            }
            let r = v.verify(&mut tape);
            obs.whole = vec![r.is_ok() as u8];
        }
    }
    obs.draws = tape.log.iter().map(|d| (d.offset, d.len)).collect();
    obs.consumed = tape.consumed();
    Ok(obs)
}

fn make_setup<C: Suite>(case: &Case) -> Result<(u8, Shape, Setup<C>), Failure> {
    let entry = case.entry % 10;
    let mut shape = Shape { n: case.shape.n.max(2), t: case.shape.t.clamp(2, case.shape.n.max(2)) };
    if entry == 6 {
        shape = Shape { n: shape.n.max(3), t: shape.t.clamp(2, shape.n.max(3) - 1) };
    }
    let mut rng = Sm(case.seed ^ 0xc16);
    let idv = {
        let mut v = make_ids::<C>(case.ids, shape.n as usize);
        v.sort();
        v
    };
    let need_keys = matches!(entry, 5 | 6 | 7);
    let keys = if need_keys { Some(dealer_keys::<C>(shape, case.ids, KeySource::Dealer, rng.next(), "C16")?) } else { None };
    let sess = match (&keys, entry) {
        (Some(k), 7) => Some(run_session::<C>(&k.kps, &k.ids[..shape.t as usize], b"m", rng.next(), "C16")?),
        _ => None,
    };
    let helpers: Vec<Id<C>> = match (&keys, entry) {
        (Some(k), 6) => {
            let hs = shape.t as usize + rng.below((shape.n - 1 - shape.t) as u64 + 1) as usize;
            k.ids[..hs].to_vec()
        }
        _ => vec![],
    };
    let sk = SigningKey::<C>::new(&mut Tape::random(rng.next()));
    let mut batch = Vec::new();
    if entry == 9 {
        let items = 1 + rng.below(12) as usize;
        for i in 0..items {
            let k = SigningKey::<C>::new(&mut Tape::random(rng.next()));
            let msg = rng.bytes(i % 5);
            let sig = k.sign(Tape::random(rng.next()), &msg);
            batch.push((frost::VerifyingKey::<C>::from(&k), sig, msg));
        }
    }
    let idv = if let Some(k) = &keys { k.ids.clone() } else { idv };
    Ok((entry, shape, Setup { shape, idv, keys, sk, sess, helpers, batch }))
}

fn check<C: Suite>(case: &Case, ctx: &mut Ctx) -> CheckResult {
    let (entry, shape, st) = make_setup::<C>(case)?;
    let ename = ENTRY[entry as usize];
    ctx.eval(&format!("{ename},{},{}", shape.n, shape.t), true);
    ctx.label(&format!("entry:{ename}"));
    let desc = format!("{ename} n={} t={} ids={}", shape.n, shape.t, case.ids.style.name());

    let spec = TapeSpec::Random(case.tape_seed);
    let base = run_entry::<C>(entry, &st, spec.clone())?;
    if base.independent.len() >= 4 {
        ctx.label("secrets>=4");
    }
    if base.independent.len() > 64 {
        ctx.label("secrets>64");
    }

    // the number of draws is at least the number of secrets; every draw is non-empty
    let nsecrets = match entry {
        6 => base.independent.len().saturating_sub(1), // |H|-1 free deltas
        9 => st.batch.len(),                            // one blinder per item
        _ => base.independent.len(),
    };
    ensure!(ctx, base.draws.len() >= nsecrets, "C16/too-few-draws", "{} draws for {} secret values ({desc})", base.draws.len(), nsecrets);
    if entry == 7 {
        if base.independent[0].1.len() != sc_len::<C>() {
            ctx.info("randomizer-seed-length-differs-from-scalar-length");
        }
        ensure!(ctx, base.independent[0].1.len() >= 16, "C16/too-few-draws", "randomizer seed has only {} bytes of caller randomness ({desc})", base.independent[0].1.len());
    }
    if entry == 9 {
        ensure!(ctx, base.whole == vec![1], "C16/entry-point-failed", "valid batch rejected ({desc})");
        // every blinder must be at least 128 bits of caller randomness
        ensure!(ctx, base.consumed >= 16 * st.batch.len() as u64, "C16/too-few-draws", "{} random bytes for {} batch items ({desc})", base.consumed, st.batch.len());
    }

    // (reproducible) same source output => bit-identical computation
    let again = run_entry::<C>(entry, &st, spec.clone())?;
    ensure!(ctx, again.whole == base.whole && again.consumed == base.consumed, "C16/not-reproducible", "same random-source output gave a different result: entropy comes from somewhere else ({desc})");

    // (distinct) within one call no two of the values coincide
    for i in 0..base.independent.len() {
        for j in i + 1..base.independent.len() {
            ensure!(ctx, base.independent[i].1 != base.independent[j].1, "C16/values-coincide", "{} and {} coincide within one call ({desc})", base.independent[i].0, base.independent[j].0);
        }
    }

    // (sensitive) a disjoint source output changes every one of them, and nothing that must not depend on it
    let other = run_entry::<C>(entry, &st, TapeSpec::Random(case.tape_seed ^ 0xffff_0000_ffff_0001))?;
    ensure!(ctx, other.independent.len() == base.independent.len(), "C16/harness", "shape of the result changed");
    for (a, b) in base.independent.iter().zip(&other.independent) {
        ensure!(ctx, a.1 != b.1, "C16/value-ignores-source", "{} is the same under a completely different random-source output ({desc})", a.0);
    }
    for (a, b) in base.fixed.iter().zip(&other.fixed) {
        ensure!(ctx, a.1 == b.1, "C16/fixed-value-changed", "{} depends on the random source ({desc})", a.0);
    }

    // (extreme output) every output of the source is legitimate: one recorded draw at a time is forced to all-0xff bytes
    // (for rejection-sampling fields a candidate above the group order, which has to be redrawn, not mapped to a fixed
    // value). The call still succeeds, the values stay pairwise distinct, and they still follow the rest of the source.
    if entry != 9 {
        let spec2 = TapeSpec::Random(case.tape_seed ^ 0x0f0f_f0f0_1234_5678);
        for (d, (off, len)) in base.draws.iter().enumerate().take(8) {
            if *len == 0 {
                continue;
            }
            ctx.label("extreme-draw");
            let a = match run_entry::<C>(entry, &st, spec.force(*off, *len, 0xff)) {
                Ok(o) => o,
                Err(f) if f.key == "C16/entry-point-failed" => {
                    return ctx.fail("C16/extreme-source-output-mishandled", format!("draw #{d} ({len} bytes at offset {off}) forced to 0xff..ff: the call fails: {} ({desc})", f.msg));
                }
                Err(f) => return Err(f),
            };
            ensure!(ctx, a.independent.len() == base.independent.len(), "C16/harness", "shape of the result changed");
            for i in 0..a.independent.len() {
                for j in i + 1..a.independent.len() {
                    ensure!(ctx, a.independent[i].1 != a.independent[j].1, "C16/values-coincide", "{} and {} coincide when draw #{d} is 0xff..ff ({desc})", a.independent[i].0, a.independent[j].0);
                }
            }
            // the same forced draw on a different source: no value may be pinned by the forced bytes alone
            if let Ok(b) = run_entry::<C>(entry, &st, spec2.force(*off, *len, 0xff)) {
                if b.independent.len() == a.independent.len() {
                    for (x, y) in a.independent.iter().zip(&b.independent) {
                        // a value drawn exactly from the forced bytes is the same in both runs for fields that reduce
                        // (not reject) - allowed; but it must not be the neutral value
                        if x.1 == y.1 {
                            ensure!(ctx, !x.1.is_empty() && x.1.iter().any(|v| *v != 0), "C16/extreme-source-output-mishandled", "{} collapses to an empty/zero encoding when draw #{d} is 0xff..ff ({desc})", x.0);
                        }
                    }
                }
            }
        }
    }

    // (independent) perturb each recorded draw alone
    if !base.independent.is_empty() {
        let m = base.independent.len();
        let mut changed_by_some = vec![false; m];
        // for repair: count, per value, how many draws change it
        let mut change_count = vec![0usize; m];
        let mut violations: Vec<String> = Vec::new();
        for (d, (off, len)) in base.draws.iter().enumerate() {
            if *len == 0 {
                continue;
            }
            let p = run_entry::<C>(entry, &st, spec.perturb(*off, *len, case.seed ^ d as u64))?;
            if p.independent.len() != m {
                continue;
            }
            let changed: Vec<usize> = (0..m).filter(|i| p.independent[*i].1 != base.independent[*i].1).collect();
            for i in &changed {
                changed_by_some[*i] = true;
                change_count[*i] += 1;
            }
            let limit = if entry == 6 { 2 } else { 1 }; // repair: one free delta + the balancing delta
            if changed.len() > limit {
                violations.push(format!("draw #{d} (stream bytes [{off},{})) alone changes {} values: {:?}", off + len, changed.len(), changed.iter().map(|i| base.independent[*i].0.clone()).collect::<Vec<_>>()));
            }
            for (a, b) in base.fixed.iter().zip(&p.fixed) {
                ensure!(ctx, a.1 == b.1, "C16/fixed-value-changed", "{} depends on the random source ({desc})", a.0);
            }
        }
        ensure!(ctx, violations.is_empty(), "C16/values-share-a-draw", "values that must come from distinct draws depend on the same draw: {} ({desc})", violations.join("; "));
        for (i, c) in changed_by_some.iter().enumerate() {
            ensure!(ctx, *c, "C16/value-not-from-a-draw", "{} changes under no single-draw perturbation although the whole-tape change affects it ({desc})", base.independent[i].0);
        }
        if entry == 6 {
            // at most one delta (the balancing one) may depend on more than one draw
            let multi = change_count.iter().filter(|c| **c > 1).count();
            ensure!(ctx, multi <= 1, "C16/values-share-a-draw", "{multi} repair deltas depend on several draws; only the balancing delta may ({desc})");
        }
    }
    Ok(())
}


// ---------------------------------------------------------------------------------------------
// fresh-process stage: "with the same source output the whole computation is reproducible bit for bit" also
// means that the result does not depend on what the process did before (a value cached in a static by an
// earlier call, possibly for another ciphersuite). Every entry point is run once in this - by now well used -
// process and once in a brand-new process on the same inputs and the same source output.

fn whole_of<C: Suite>(case: &Case) -> Result<String, Failure> {
    let (entry, _, st) = make_setup::<C>(case)?;
    let o = run_entry::<C>(entry, &st, TapeSpec::Random(case.tape_seed))?;
    Ok(format!("{}:{}", hex::encode(&o.whole), o.consumed))
}

pub fn whole_dispatch(suite: SuiteId, case: &Case) -> Result<String, Failure> {
    dispatch!(suite, whole_of(case))
}

/// `fv c16-fresh <suite> <case json>`: prints the result of the case computed in a fresh process
pub fn fresh_child(args: &[String]) -> i32 {
    let suite = match args.first().and_then(|s| SuiteId::from_name(s)) {
        Some(s) => s,
        None => return 2,
    };
    let case: Case = match args.get(1).and_then(|j| serde_json::from_str(j).ok()) {
        Some(c) => c,
        None => return 2,
    };
    match whole_dispatch(suite, &case) {
        Ok(w) => {
            println!("{w}");
            0
        }
        Err(f) => {
            eprintln!("{}: {}", f.key, f.msg);
            3
        }
    }
}

pub fn fresh_process_stage(seed: u64, out: &mut ExtraOut) {
    let exe = match std::env::current_exe() {
        Ok(e) => e,
        Err(e) => {
            out.inconclusive.push(format!("cannot locate own executable: {e}"));
            return;
        }
    };
    let mut rng = Sm(seed ^ 0xc16_f4e5);
    for suite in ALL_SUITES.iter() {
        for entry in 0..10u8 {
            let case = Case { entry, shape: Shape { n: 3, t: 2 }, ids: IdSpec { style: ID_STYLES[rng.below(6) as usize], seed: rng.next() }, tape_seed: rng.next(), seed: rng.next() };
            let here = match whole_dispatch(*suite, &case) {
                Ok(w) => w,
                Err(f) => {
                    out.inconclusive.push(format!("fresh-process stage: in-process run failed: {}", f.msg));
                    continue;
                }
            };
            let cj = serde_json::to_string(&case).unwrap();
            let child = std::process::Command::new(&exe).args(["c16-fresh", suite.name(), &cj]).output();
            out.stats.evaluations += 1;
            *out.stats.labels.entry("fresh-process".into()).or_insert(0) += 1;
            match child {
                Ok(o) if o.status.code() == Some(0) => {
                    let there = String::from_utf8_lossy(&o.stdout).trim().to_string();
                    if there != here {
                        out.violations.push(Violation {
                            suite: suite.name().to_string(),
                            failure: Failure {
                                key: "C16/result-depends-on-process-history".into(),
                                msg: format!(
                                    "{} with the same inputs and the same random-source output gives a different result (or draws another number of bytes) in a fresh process than in this process, which had run other calls (other ciphersuites) before: here {} bytes drawn, fresh process {} bytes drawn",
                                    ENTRY[entry as usize],
                                    here.rsplit(':').next().unwrap_or("?"),
                                    there.rsplit(':').next().unwrap_or("?")
                                ),
                            },
                            case: serde_json::to_value(&case).unwrap(),
                            replay_kind: "case".into(),
                        });
                        return;
                    }
                }
                Ok(o) => out.inconclusive.push(format!("fresh process ended with {:?}: {}", o.status.code(), String::from_utf8_lossy(&o.stderr))),
                Err(e) => out.inconclusive.push(format!("cannot start fresh process: {e}")),
            }
        }
    }
}
