//! C06 — dealer key generation yields consistent, verifiable shares of the given key.

use crate::common::*;
use crate::engine::*;
use crate::suites::*;
use crate::tape::{Sm, Tape};
use crate::{dispatch, ensure};
use frost_core as frost;
use frost_core::keys::{CoefficientCommitment, IdentifierList, KeyPackage, SecretShare, SigningShare, VerifiableSecretSharingCommitment};
use frost_core::{Error, SigningKey};
use proptest::prelude::*;
use serde::{Deserialize, Serialize};

pub struct C06;

#[derive(Clone, Debug, Serialize, Deserialize)]
pub enum Case {
    Honest { shape: Shape, ids: IdSpec, split: bool, custom_default: bool, seed: u64 },
    /// invalid parameters
    Params { n: u16, t: u16, kind: u8, ids: IdSpec, split: bool, seed: u64 },
    /// (65535, 2) accepted sharing — thorough only
    Huge { split: bool, seed: u64 },
}

const ST_PARAMS: u32 = 50;
/// always-present stratum: custom identifier list of n + 65536 entries
const ST_WRAP: u32 = 102;
const ST_LARGE_T: u32 = 103;
const ST_HUGE: u32 = 60;

impl Property for C06 {
    type Case = Case;
    fn id(&self) -> &'static str {
        "C06"
    }
    fn level(&self) -> &'static str {
        "fault_enumeration"
    }
    fn rule(&self) -> String {
        "honest cases = (suite, n, t, identifier list Default/Custom of any style, generate_with_dealer or split, seed); for each honest \
         sharing ALL single-coordinate tamperings are enumerated for three recipients (lowest, highest, one other): share value +1 / \
         random / another participant's, identifier replaced by another participant's / a foreign one, EACH of the t commitment \
         coefficients replaced, commitment truncated / extended; invalid-parameter cases enumerate t<2, n<2, t>n, u16 boundary values, \
         n+-1 custom identifiers, duplicates. One evaluation per honest sharing, per tampering and per parameter case. non-trivial = \
         (n,t) not in {(5,3),(3,2)} or custom identifiers or any tampering / invalid parameter; distinct = distinct (suite, n, t, id \
         style, entry point, tampering descriptor) tuples"
            .into()
    }
    fn assumptions(&self) -> Vec<String> {
        vec![
            "curve-crate group arithmetic is trusted to state G*share and sum id^k*C_k (computed with explicit powers, not the library's fold)".into(),
            "Lagrange interpolation used by the oracle is the harness's own routine".into(),
        ]
    }
    fn plan(&self, suite: SuiteId, tier: Tier) -> Vec<(u32, u32)> {
        let per = match (tier, suite.slow()) {
            (Tier::Quick, false) => 30,
            (Tier::Quick, true) => 6,
            (Tier::Thorough, false) => 250,
            (Tier::Thorough, true) => 50,
        };
        // strata 0..11: id style x entry point
        let mut v: Vec<(u32, u32)> = (0..12).map(|s| (s, per)).collect();
        v.push((ST_PARAMS, tier.pick(40, 400)));
        v.push((ST_WRAP, tier.pick(2, 8)));
        // large thresholds: 16, 17, 33, 64, 65 coefficients
        v.push((ST_LARGE_T, match (tier, suite.slow()) {
            (Tier::Quick, false) => 4,
            (Tier::Quick, true) => 1,
            (Tier::Thorough, false) => 20,
            (Tier::Thorough, true) => 4,
        }));
        if tier == Tier::Thorough && !suite.slow() {
            v.push((ST_HUGE, 1));
        }
        v
    }
    fn chunk(&self, suite: SuiteId) -> u32 {
        if suite.slow() { 2 } else { 8 }
    }
    fn strategy(&self, suite: SuiteId, tier: Tier, stratum: u32) -> BoxedStrategy<Case> {
        match stratum {
            ST_HUGE => (any::<bool>(), any::<u64>()).prop_map(|(split, seed)| Case::Huge { split, seed }).boxed(),
            ST_LARGE_T => {
                let ts: Vec<u16> = if suite.slow() { vec![16, 17, 33] } else { vec![16, 17, 33, 64, 65] };
                (proptest::sample::select(ts), 0u16..3, idspec_strategy(None), any::<bool>(), any::<u64>())
                    .prop_map(|(t, extra, ids, split, seed)| Case::Honest { shape: Shape { n: t + extra, t }, ids, split, custom_default: true, seed })
                    .boxed()
            }
            ST_WRAP => (2u16..8, idspec_strategy(None), any::<bool>(), any::<u64>()).prop_map(|(n, ids, split, seed)| Case::Params { n, t: 2, kind: 10, ids, split, seed }).boxed(),
            ST_PARAMS => (0u16..8, 0u16..8, 0u8..11, idspec_strategy(None), any::<bool>(), any::<u64>())
                .prop_map(|(n, t, kind, ids, split, seed)| Case::Params { n, t, kind, ids, split, seed })
                .boxed(),
            s => {
                let style = ID_STYLES[(s % 6) as usize];
                let split = s / 6 == 1;
                let nmax: u16 = match (tier, suite.slow()) {
                    (Tier::Quick, false) => 16,
                    (Tier::Quick, true) => 8,
                    (Tier::Thorough, false) => 40,
                    (Tier::Thorough, true) => 14,
                };
                // degree >= 3 in at least half of the cases: t drawn from 4..=n half of the time
                (4..=nmax, any::<u16>(), any::<bool>(), idspec_strategy(Some(style)), any::<bool>(), any::<u64>(), shape_strategy(nmax))
                    .prop_map(move |(n, ti, high, ids, custom_default, seed, free)| {
                        let shape = if high { Shape { n, t: 4 + idx(ti, (n - 3) as usize) as u16 } } else { free };
                        Case::Honest { shape, ids, split, custom_default, seed }
                    })
                    .boxed()
            }
        }
    }
    fn required_labels(&self, tier: Tier) -> Vec<(String, u64)> {
        let m = tier.pick(20, 200);
        vec![
            ("degree>=3".into(), m),
            ("entry:split".into(), m),
            ("entry:generate".into(), m),
            ("tamper:coefficient-top".into(), m),
            ("tamper:coefficient-0".into(), m),
            ("tamper:truncate".into(), m),
            ("tamper:extend".into(), m),
            ("tamper:identifier-foreign".into(), m),
            ("params:t<2".into(), 5),
            ("params:t>n".into(), 5),
            ("params:duplicate-ids".into(), 5),
            ("params:wrong-id-count".into(), 5),
            ("params:wrong-id-count-mod-65536".into(), 2),
            ("t>=16".into(), 6),
            ("reconstruct:more-than-t-unsorted".into(), m),
        ]
    }
    fn check(&self, suite: SuiteId, case: &Case, ctx: &mut Ctx) -> CheckResult {
        dispatch!(suite, check(case, ctx))
    }
}

fn check<C: Suite>(case: &Case, ctx: &mut Ctx) -> CheckResult {
    match case {
        Case::Honest { shape, ids, split, custom_default, seed } => honest::<C>(*shape, *ids, *split, *custom_default, *seed, ctx),
        Case::Params { n, t, kind, ids, split, seed } => params::<C>(*n, *t, *kind, *ids, *split, *seed, ctx),
        Case::Huge { split, seed } => {
            let shape = Shape { n: 65535, t: 2 };
            ctx.label("huge-65535");
            honest::<C>(shape, IdSpec { style: IdStyle::Default, seed: 0 }, *split, false, *seed, ctx)
        }
    }
}

fn call<C: Suite>(
    n: u16,
    t: u16,
    list: IdentifierList<C>,
    split: bool,
    seed: u64,
) -> (Result<(std::collections::BTreeMap<Id<C>, SecretShare<C>>, frost::keys::PublicKeyPackage<C>), Error<C>>, Option<SigningKey<C>>) {
    let mut tape = Tape::random(seed ^ 0xc06);
    if split {
        let sk = SigningKey::<C>::new(&mut Tape::random(seed ^ 0x5c06));
        (frost::keys::split(&sk, n, t, list, &mut tape), Some(sk))
    } else {
        (frost::keys::generate_with_dealer::<C, _>(n, t, list, &mut tape), None)
    }
}

fn honest<C: Suite>(shape: Shape, ids: IdSpec, split: bool, custom_default: bool, seed: u64, ctx: &mut Ctx) -> CheckResult {
    let shape = Shape { n: shape.n.max(2), t: shape.t.clamp(2, shape.n.max(2)) };
    let (n, t) = (shape.n as usize, shape.t as usize);
    let idv = make_ids::<C>(ids, n);
    // Default style: either IdentifierList::Default or the same identifiers passed as a custom list
    let use_default = ids.style == IdStyle::Default && !custom_default;
    let list = if use_default { IdentifierList::Default } else { IdentifierList::Custom(&idv) };
    // the ciphersuite crate's own keys::generate_with_dealer / split / reconstruct give what the generic functions give
    crate::wrappers::differential::<C>(ctx, "C06", crate::wrappers::Part::Dealer, seed)?;
    let (r, sk) = call::<C>(shape.n, shape.t, list, split, seed);
    let desc = format!("n={n} t={t} ids={}{} entry={}", ids.style.name(), if use_default { "" } else { "(custom)" }, if split { "split" } else { "generate" });
    let nontrivial = !matches!((n, t), (5, 3) | (3, 2)) || !use_default;
    ctx.eval(&format!("{n},{t},{},{use_default},{split},honest", ids.style.name()), nontrivial);
    ctx.label(if split { "entry:split" } else { "entry:generate" });
    if t >= 4 {
        ctx.label("degree>=3");
    }
    if t >= 16 {
        ctx.label("t>=16");
    }
    let (shares, pubkeys) = match r {
        Ok(x) => x,
        Err(e) => return ctx.fail("C06/valid-parameters-refused", format!("dealer refused valid parameters ({desc}): {e:?}")),
    };
    ensure!(ctx, shares.len() == n && pubkeys.verifying_shares().len() == n, "C06/wrong-number-of-shares", "{} shares / {} verifying shares for n={n}", shares.len(), pubkeys.verifying_shares().len());
    ensure!(ctx, pubkeys.max_signers() as usize == n, "C06/max-signers", "max_signers() = {} for n={n}", pubkeys.max_signers());
    ensure!(ctx, pubkeys.min_signers() == Some(shape.t), "C06/threshold-field", "public key package min_signers {:?}, expected Some({t}) ({desc})", pubkeys.min_signers());
    let vk = *pubkeys.verifying_key();
    if let Some(sk) = &sk {
        let want = gen_::<C>() * sk.clone().to_scalar();
        ensure!(ctx, vk.to_element() == want || (C::SID.taproot() && vk.to_element() == el_neg::<C>(want)), "C06/group-key-not-the-split-key", "group key differs from G*key that was split ({desc})");
    }
    for id in &idv {
        ensure!(ctx, shares.contains_key(id), "C06/identifier-missing", "no share for identifier {} ({desc})", id_hex::<C>(id));
    }
    let mut commitment: Option<Vec<El<C>>> = None;
    let limit_checks = if n > 300 { 40 } else { n };
    let mut rng = Sm(seed ^ 0x6);
    let sample_pos: Vec<usize> = if n > 300 { (0..limit_checks).map(|_| rng.below(n as u64) as usize).chain([0, n - 1]).collect() } else { (0..n).collect() };
    let sorted: Vec<Id<C>> = shares.keys().copied().collect();
    for p in &sample_pos {
        let id = sorted[*p];
        let sh = &shares[&id];
        ensure!(ctx, *sh.identifier() == id, "C06/share-identifier", "share filed under {} carries identifier {}", id_hex::<C>(&id), id_hex::<C>(sh.identifier()));
        let comm: Vec<El<C>> = sh.commitment().coefficients().iter().map(|c| c.value()).collect();
        ensure!(ctx, comm.len() == t, "C06/commitment-length", "commitment has {} entries for t={t} ({desc})", comm.len());
        ensure!(ctx, comm.iter().all(|c| *c != ident::<C>()), "C06/degree-below-t-1", "a commitment coefficient is the identity ({desc})");
        if let Some(c0) = &commitment {
            ensure!(ctx, *c0 == comm, "C06/commitments-differ", "participants received different commitments ({desc})");
        } else {
            commitment = Some(comm.clone());
        }
        // share verifies against the published commitment (naive powers)
        let gs = gen_::<C>() * sh.signing_share().to_scalar();
        ensure!(ctx, gs == commit_eval::<C>(&comm, id.to_scalar()), "C06/share-not-on-committed-polynomial", "G*share != sum id^k*C_k for {} ({desc})", id_hex::<C>(&id));
        match sh.verify() {
            Ok((vs, k)) => {
                ensure!(ctx, vs.to_element() == gs && k == vk, "C06/verify-output", "SecretShare::verify returned inconsistent group info ({desc})");
            }
            Err(e) => ctx.fail("C06/honest-share-rejected", format!("SecretShare::verify rejected the honest share of {} ({desc}): {e:?}", id_hex::<C>(&id)))?,
        }
        match KeyPackage::try_from(sh.clone()) {
            Ok(kp) => {
                ensure!(ctx, kp.verifying_share().to_element() == gs, "C06/verifying-share", "key package verifying share != G*signing share ({desc})");
                ensure!(ctx, pubkeys.verifying_shares().get(&id).map(|v| v.to_element()) == Some(gs), "C06/verifying-share", "public key package entry of {} != G*signing share ({desc})", id_hex::<C>(&id));
                ensure!(ctx, *kp.verifying_key() == vk, "C06/group-key-differs", "key package group key differs from the public key package ({desc})");
                ensure!(ctx, *kp.min_signers() == shape.t, "C06/threshold-field", "key package min_signers {} expected {t} ({desc})", kp.min_signers());
                ensure!(ctx, *kp.identifier() == id && kp.signing_share().to_scalar() == sh.signing_share().to_scalar(), "C06/key-package-fields", "key package identifier/share differ from the secret share");
            }
            Err(e) => ctx.fail("C06/honest-share-rejected", format!("KeyPackage::try_from rejected the honest share of {} ({desc}): {e:?}", id_hex::<C>(&id)))?,
        }
    }
    let comm = commitment.unwrap_or_default();
    ensure!(ctx, comm.first().copied() == Some(vk.to_element()) || C::SID.taproot(), "C06/group-key-not-constant-term", "group key != commitment to the constant term ({desc})");

    // the helpers that rebuild public key material from the PUBLISHED commitment agree with what the dealer handed out
    // (Taproot: the dealer output is post-processed, so the plain commitment describes the untweaked key)
    if !C::SID.taproot() && n <= 300 {
        let published = shares[&sorted[0]].commitment();
        let idset: std::collections::BTreeSet<Id<C>> = sorted.iter().copied().collect();
        ctx.label("from-commitment");
        match frost::keys::PublicKeyPackage::<C>::from_commitment(&idset, published) {
            Ok(p2) => {
                ensure!(ctx, p2.verifying_key() == pubkeys.verifying_key() && p2.verifying_shares() == pubkeys.verifying_shares(), "C06/from-commitment-differs", "PublicKeyPackage::from_commitment over the published commitment differs from the dealer's public key package ({desc})");
                ensure!(ctx, p2.min_signers() == Some(shape.t), "C06/threshold-field", "PublicKeyPackage::from_commitment records min_signers {:?}, expected Some({t}) ({desc})", p2.min_signers());
            }
            Err(e) => ctx.fail("C06/from-commitment-differs", format!("PublicKeyPackage::from_commitment failed on the published commitment: {e:?} ({desc})"))?,
        }
        match frost::VerifyingKey::<C>::from_commitment(published) {
            Ok(k) => ensure!(ctx, k == vk, "C06/from-commitment-differs", "VerifyingKey::from_commitment differs from the group key ({desc})"),
            Err(e) => ctx.fail("C06/from-commitment-differs", format!("VerifyingKey::from_commitment failed: {e:?} ({desc})"))?,
        }
        for p in sample_pos.iter().take(8) {
            let id = sorted[*p];
            let v = frost::keys::VerifyingShare::<C>::from_commitment(id, published);
            ensure!(ctx, Some(&v) == pubkeys.verifying_shares().get(&id), "C06/from-commitment-differs", "VerifyingShare::from_commitment of {} differs from the public key package entry ({desc})", id_hex::<C>(&id));
        }
    }

    // one polynomial of degree exactly t-1 with value key at zero
    let pick = |rng: &mut Sm, k: usize| -> Vec<Id<C>> {
        make_subset(n, k, SubsetSpec { class: SubsetClass::Scattered, extra: 0, seed: rng.next() }).iter().map(|i| sorted[*i]).collect()
    };
    let basis = pick(&mut rng, t);
    let xs: Vec<Sc<C>> = basis.iter().map(|i| i.to_scalar()).collect();
    let interp = |at: Option<Sc<C>>| -> Sc<C> {
        let mut acc = zero::<C>();
        for id in &basis {
            acc = acc + lagrange::<C>(&xs, id.to_scalar(), at) * shares[id].signing_share().to_scalar();
        }
        acc
    };
    let secret = interp(None);
    ensure!(ctx, gen_::<C>() * secret == comm[0], "C06/t-shares-do-not-reconstruct", "t shares do not interpolate to the committed constant term ({desc})");
    if let Some(sk) = &sk {
        let s = sk.clone().to_scalar();
        ensure!(ctx, secret == s || (C::SID.taproot() && secret == neg::<C>(s)), "C06/t-shares-do-not-reconstruct", "t shares do not interpolate to the key that was split ({desc})");
    }
    for p in sample_pos.iter().take(24) {
        let id = sorted[*p];
        ensure!(ctx, interp(Some(id.to_scalar())) == shares[&id].signing_share().to_scalar(), "C06/shares-not-on-one-polynomial", "share of {} is not on the degree-(t-1) polynomial through {} other shares ({desc})", id_hex::<C>(&id), t);
    }
    // library reconstruct with MORE than t shares ("at least min_signers"), in an order that is not ascending
    if n > t && n <= 300 {
        let k = t + 1 + rng.below((n - t) as u64) as usize;
        let mut ids_k: Vec<Id<C>> = pick(&mut rng, k);
        for i in (1..ids_k.len()).rev() {
            ids_k.swap(i, rng.below(i as u64 + 1) as usize);
        }
        ids_k.reverse();
        let kps: Vec<KeyPackage<C>> = ids_k.iter().filter_map(|i| KeyPackage::try_from(shares[i].clone()).ok()).collect();
        if kps.len() == k {
            ctx.label("reconstruct:more-than-t-unsorted");
            match frost::keys::reconstruct(&kps) {
                Ok(key) => ensure!(ctx, key.to_scalar() == secret, "C06/reconstruct", "reconstruct over {k} > t shares (caller's order not ascending) != interpolated secret ({desc})"),
                Err(e) => ctx.fail("C06/reconstruct", format!("reconstruct failed over {k} > t honest shares passed in non-ascending order: {e:?} ({desc})"))?,
            }
        }
    }
    // library reconstruct with another t-subset
    let kps: Vec<KeyPackage<C>> = pick(&mut rng, t).iter().filter_map(|i| KeyPackage::try_from(shares[i].clone()).ok()).collect();
    if kps.len() == t {
        match frost::keys::reconstruct(&kps) {
            Ok(k) => ensure!(ctx, k.to_scalar() == secret, "C06/reconstruct", "reconstruct over t shares != interpolated secret ({desc})"),
            Err(e) => ctx.fail("C06/reconstruct", format!("reconstruct failed over t honest shares: {e:?}"))?,
        }
    }
    // t-1 shares do not
    if t >= 2 {
        let few = pick(&mut rng, t - 1);
        let xs2: Vec<Sc<C>> = few.iter().map(|i| i.to_scalar()).collect();
        let mut acc = zero::<C>();
        for id in &few {
            acc = acc + lagrange::<C>(&xs2, id.to_scalar(), None) * shares[id].signing_share().to_scalar();
        }
        ensure!(ctx, acc != secret, "C06/degree-below-t-1", "t-1 shares already interpolate to the secret: degree below t-1 ({desc})");
    }

    if n > 300 {
        return Ok(());
    }
    // ---- single-coordinate tamperings for three recipients ------------------------------
    let mut victims = vec![sorted[0], sorted[n - 1]];
    if n > 2 {
        victims.push(sorted[1 + rng.below(n as u64 - 2) as usize]);
    }
    let foreign = fresh_id::<C>(&sorted, IdSpec { style: ids.style, seed: rng.next() });
    for v in victims {
        let sh = &shares[&v];
        let other = sorted[(sorted.iter().position(|x| *x == v).unwrap() + 1) % n];
        let s = sh.signing_share().to_scalar();
        let cc: Vec<CoefficientCommitment<C>> = sh.commitment().coefficients().to_vec();
        let mk = |id: Id<C>, s: Sc<C>, c: Vec<CoefficientCommitment<C>>| SecretShare::<C>::new(id, SigningShare::new(s), VerifiableSecretSharingCommitment::new(c));
        let mut tampered: Vec<(String, SecretShare<C>)> = vec![
            ("value+1".into(), mk(v, s + one::<C>(), cc.clone())),
            ("value-random".into(), mk(v, sc_rand::<C>(rng.next()), cc.clone())),
            ("value-of-other-participant".into(), mk(v, shares[&other].signing_share().to_scalar(), cc.clone())),
            ("identifier-other-participant".into(), mk(other, s, cc.clone())),
            ("identifier-foreign".into(), mk(foreign, s, cc.clone())),
        ];
        for k in 0..t {
            let mut c2 = cc.clone();
            let repl = c2[k].value() + gen_::<C>() * sc_rand_nonzero::<C>(rng.next());
            if repl == ident::<C>() {
                continue;
            }
            c2[k] = CoefficientCommitment::new(repl);
            let name = if k == 0 { "coefficient-0".to_string() } else if k == t - 1 { "coefficient-top".to_string() } else { format!("coefficient-{k}") };
            tampered.push((name, mk(v, s, c2)));
        }
        if t == 2 {
            // with t = 2 index 1 is the top coefficient *and* was labelled top; also label 0 handled above
        }
        {
            let mut c2 = cc.clone();
            c2.pop();
            tampered.push(("truncate".into(), mk(v, s, c2)));
            let mut c3 = cc.clone();
            c3.push(CoefficientCommitment::new(gen_::<C>() * sc_rand_nonzero::<C>(rng.next())));
            tampered.push(("extend".into(), mk(v, s, c3)));
        }
        for (name, ts) in tampered {
            ctx.eval(&format!("{n},{t},{},{split},tamper,{name},{}", ids.style.name(), sorted.iter().position(|x| *x == v).unwrap() * 2 / n), true);
            let lname = if name.starts_with("coefficient-") && name != "coefficient-0" && name != "coefficient-top" { "coefficient-mid".to_string() } else { name.clone() };
            ctx.label(&format!("tamper:{lname}"));
            let r1 = ts.verify();
            ensure!(ctx, r1.is_err(), "C06/tampered-share-accepted", "SecretShare::verify accepted a share with tampering '{name}' ({desc}, recipient {})", id_hex::<C>(&v));
            let r2 = KeyPackage::try_from(ts);
            ensure!(ctx, matches!(r2, Err(Error::InvalidSecretShare { .. })), "C06/tampered-share-accepted", "KeyPackage::try_from did not reject tampering '{name}' with InvalidSecretShare ({desc}): {:?}", r2.as_ref().map(|_| "Ok").map_err(|e| e.clone()));
        }
    }
    Ok(())
}

fn params<C: Suite>(n: u16, t: u16, kind: u8, ids: IdSpec, split: bool, seed: u64, ctx: &mut Ctx) -> CheckResult {
    // each kind produces parameters with exactly one defect (or a boundary-valid control)
    let mut rng = Sm(seed);
    let (nn, tt, list_ids, label): (u16, u16, Option<Vec<Id<C>>>, &str) = match kind {
        0 => (n.max(2), t % 2, None, "t<2"),                     // t in {0,1}
        1 => (n % 2, 2, None, "n<2"),                            // n in {0,1}, t=2 (also t>n)
        2 => {
            let nn = n.max(2);
            (nn, nn + 1 + t, None, "t>n")
        }
        3 => (n.max(2), 65535, None, "t>n"),
        4 => (0, 0, None, "n<2"),
        5 => {
            let nn = n.max(2);
            (nn, 2, Some(make_ids::<C>(ids, nn as usize + 1)), "wrong-id-count")
        }
        6 => {
            let nn = n.max(3);
            (nn, 2, Some(make_ids::<C>(ids, nn as usize - 1)), "wrong-id-count")
        }
        7 => {
            let nn = n.max(2);
            let mut v = make_ids::<C>(ids, nn as usize);
            let i = rng.below(nn as u64) as usize;
            let j = (i + 1 + rng.below(nn as u64 - 1) as usize) % nn as usize;
            v[j] = v[i];
            (nn, 2, Some(v), "duplicate-ids")
        }
        8 => (n.max(2), 1, Some(make_ids::<C>(ids, n.max(2) as usize)), "t<2"),
        10 => {
            // a custom list whose length equals n only modulo 2^16 (n + 65536 distinct identifiers)
            let nn = n.max(2);
            let v: Vec<Id<C>> = (1..=(nn as u64 + 65536)).map(|i| Id::<C>::new(sc_u64::<C>(i + (seed & 0xffff))).expect("non-zero scalar")).collect();
            (nn, 2, Some(v), "wrong-id-count-mod-65536")
        }
        _ => {
            // control: boundary-valid parameters must be accepted: t = n = 2 and t = 2, n = 3
            let nn = 2 + (n % 2);
            (nn, 2, None, "control-valid")
        }
    };
    let list = match &list_ids {
        Some(v) => IdentifierList::Custom(v),
        None => IdentifierList::Default,
    };
    let (r, _) = call::<C>(nn, tt, list, split, seed);
    ctx.eval(&format!("params,{label},{nn},{tt},{split},{}", list_ids.as_ref().map(|v| v.len()).unwrap_or(0)), true);
    ctx.label(&format!("params:{label}"));
    if label == "control-valid" {
        ensure!(ctx, r.is_ok(), "C06/valid-parameters-refused", "dealer refused valid boundary parameters n={nn} t={tt}: {:?}", r.as_ref().err());
        return Ok(());
    }
    match r {
        Ok(_) => ctx.fail("C06/invalid-parameters-accepted", format!("dealer accepted invalid parameters ({label}): n={nn} t={tt} ids={:?} entry={}", list_ids.as_ref().map(|v| v.len()), if split { "split" } else { "generate" })),
        Err(e) => {
            ctx.info(&format!("params:{label}:{}", format!("{e:?}").split(['{', '(']).next().unwrap_or("").trim()));
            Ok(())
        }
    }
}
