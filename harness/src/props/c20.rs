//! C20 — secret material is wiped on drop and on request and never shown in debug output.

use crate::common::*;
use crate::engine::*;
use crate::spy_alloc::{capture, capture_full};
use crate::suites::*;
use crate::tape::Sm;
use crate::{dispatch, ensure};
use frost_core as frost;
use frost_core::keys::dkg;
use frost_core::keys::{KeyPackage, SecretShare, SigningShare};
use frost_core::round1::SigningNonces;
use proptest::prelude::*;
use serde::{Deserialize, Serialize};
use std::hint::black_box;
use std::mem::ManuallyDrop;
use zeroize::Zeroize;

pub struct C20;

#[derive(Clone, Debug, Serialize, Deserialize)]
pub struct Case {
    pub shape: Shape,
    pub ids: IdSpec,
    pub dkg: bool,
    pub seed: u64,
}

pub const TYPES: [&str; 9] = [
    "SigningKey",
    "SigningShare",
    "SecretShare",
    "KeyPackage",
    "SigningNonces",
    "dkg-round1-SecretPackage",
    "dkg-round2-SecretPackage",
    "dkg-round2-Package",
    "refresh-round1-SecretPackage",
];

impl Property for C20 {
    type Case = Case;
    fn id(&self) -> &'static str {
        "C20"
    }
    fn level(&self) -> &'static str {
        "exploration"
    }
    fn rule(&self) -> String {
        "case = (suite, n, t, identifier style, dealer or DKG run, seed): every secret-bearing type (signing key, signing share, dealer \
         share, key package, signing nonces, both DKG secret packages, the round-two DKG package, refresh variants) is taken from a real \
         run with random secrets. drop: the value is boxed and dropped while an allocator wrapper copies every heap block at the moment it \
         is freed; no non-zero 8-byte limb of the in-memory representation of any of its secret scalars may occur in any freed block; a \
         CONTROL per value (same bytes freed without running the destructor) must show every limb, otherwise the run is void (exit 2). \
         zeroize: afterwards every secret getter returns zero. debug: {:?} and {:#?} contain no 8-byte window of any secret scalar as hex \
         (either byte order, any case, with or without separators), decimal byte list, or u32/u64 limb in decimal or hex; control: a \
         formatter that does print the scalar is detected. One evaluation per (case, type, observation). non-trivial = every case; \
         distinct = distinct (suite, type, observation, n, t) tuples"
            .into()
    }
    fn assumptions(&self) -> Vec<String> {
        vec![
            "memory is observed on the heap at deallocation, in the optimised build profile of the harness (opt-level 3): copies the optimiser leaves in registers or dead stack slots are not observable from inside the process".into(),
            "SigningShare is Copy and has no destructor: only its explicit zeroization and its debug rendering are observed".into(),
            "a random 8-byte window of public data coinciding with a secret limb has probability ~2^-64 per position and is ignored".into(),
        ]
    }
    fn plan(&self, suite: SuiteId, tier: Tier) -> Vec<(u32, u32)> {
        let per = match (tier, suite.slow()) {
            (Tier::Quick, false) => 150,
            (Tier::Quick, true) => 30,
            (Tier::Thorough, false) => 20000,
            (Tier::Thorough, true) => 2500,
        };
        vec![(0, per), (1, per)]
    }
    fn chunk(&self, suite: SuiteId) -> u32 {
        if suite.slow() { 2 } else { 5 }
    }
    fn strategy(&self, suite: SuiteId, _tier: Tier, stratum: u32) -> BoxedStrategy<Case> {
        let dkg = stratum == 1;
        let nmax = if suite.slow() { 4 } else { 6 };
        (shape_strategy(nmax), idspec_strategy(None), any::<u64>()).prop_map(move |(shape, ids, seed)| Case { shape, ids, dkg, seed }).boxed()
    }
    fn required_labels(&self, tier: Tier) -> Vec<(String, u64)> {
        let m = tier.pick(20, 300);
        let mut v = Vec::new();
        for t in TYPES {
            v.push((format!("debug:{t}"), m));
            if t != "SigningShare" {
                v.push((format!("drop:{t}"), m));
                v.push((format!("drop-control-saw-secret:{t}"), m));
            }
            if t != "SigningKey" {
                v.push((format!("zeroize:{t}"), m));
            }
        }
        v.push(("debug-control-detected".into(), m));
        v.push(("consumed-by-part2:ok".into(), m));
        v.push(("consumed-by-part2:err".into(), m));
        v.push(("consumed-by-refresh-part2:ok".into(), m));
        v
    }
    fn check(&self, suite: SuiteId, case: &Case, ctx: &mut Ctx) -> CheckResult {
        dispatch!(suite, check(case, ctx))
    }
}

/// in-memory representation of a scalar (what a memory dump would show)
fn raw<C: Suite>(s: &Sc<C>) -> Vec<u8> {
    let p = s as *const Sc<C> as *const u8;
    // SAFETY: reading the bytes of a plain-old-data scalar value that lives for the duration of the call
    unsafe { std::slice::from_raw_parts(p, std::mem::size_of::<Sc<C>>()) }.to_vec()
}

fn limbs(reprs: &[Vec<u8>]) -> Vec<[u8; 8]> {
    let mut v = Vec::new();
    for r in reprs {
        for c in r.chunks_exact(8) {
            let l: [u8; 8] = c.try_into().unwrap();
            // ignore limbs with little content (zero padding, small values)
            if l.iter().filter(|b| **b != 0).count() >= 6 {
                v.push(l);
            }
        }
    }
    v
}

fn find(blocks: &[Vec<u8>], limb: &[u8; 8]) -> bool {
    blocks.iter().any(|b| b.windows(8).any(|w| w == limb))
}

/// drop observation for one value. `secrets`: its secret scalars; `vec_backed`: secrets living in an inner Vec.
///
/// Where the secrets live inside the value's own block is learnt from the control (the same content freed
/// WITHOUT its destructor): the offsets at which a COMPLETE secret scalar lies. After the real drop exactly
/// those places must not hold a limb of it any more. Other bytes of the struct block are not examined:
/// padding bytes are copied around by moves and may carry stale bytes (observed: 15 bytes of an earlier
/// temporary of the same nonce in the trailing padding of a `SigningNonces`) that the value never owned and
/// no destructor can reach. Blocks of another size (buffers owned by the value) must not show a limb anywhere.
fn observe_drop<C: Suite, T: Clone>(ctx: &mut Ctx, name: &str, value: &T, secrets: &[Sc<C>], vec_backed: bool, desc: &str) -> CheckResult {
    let raws: Vec<Vec<u8>> = secrets.iter().map(raw::<C>).collect();
    let raw_limbs = limbs(&raws);
    if raw_limbs.is_empty() {
        ctx.discard();
        return Ok(());
    }
    // in owned buffers the canonical encodings must not linger either
    let mut reprs = raws.clone();
    reprs.extend(secrets.iter().map(sc_bytes::<C>));
    let lm = limbs(&reprs);
    let tsize = std::mem::size_of::<T>();
    ctx.eval(&format!("drop,{name},{desc}"), true);
    // control: the same content freed WITHOUT running the destructor must show the secret
    let mut inline_pos: Vec<(usize, usize)> = Vec::new();
    {
        let boxed = black_box(Box::new(ManuallyDrop::new(value.clone())));
        let (_, mut blocks) = capture(move || drop(black_box(boxed)));
        if let Some(image) = blocks.iter().rev().find(|b| b.len() == tsize) {
            for (k, r) in raws.iter().enumerate() {
                if limbs(std::slice::from_ref(r)).is_empty() || r.len() > image.len() {
                    continue;
                }
                for o in 0..=(image.len() - r.len()) {
                    if image[o..o + r.len()] == r[..] {
                        inline_pos.push((k, o));
                    }
                }
            }
        }
        let seen_control = if vec_backed {
            let v: Vec<Sc<C>> = black_box(secrets.to_vec());
            let (_, b2) = capture(move || drop(black_box(v)));
            blocks.extend(b2);
            raw_limbs.iter().all(|l| find(&blocks, l))
        } else {
            // every secret scalar with content was located as a whole inside the value's block
            raws.iter().enumerate().all(|(k, r)| limbs(std::slice::from_ref(r)).is_empty() || inline_pos.iter().any(|(kk, _)| *kk == k))
        };
        if !seen_control {
            return Err(inconclusive(format!("C20 control did not see the secret of {name} in freed memory: the observation is void")));
        }
    }
    ctx.label(&format!("drop-control-saw-secret:{name}"));
    // the real thing
    let boxed = black_box(Box::new(value.clone()));
    let (_, blocks) = capture(move || drop(black_box(boxed)));
    ensure!(ctx, !blocks.is_empty(), "C20/harness", "no block was freed when dropping a boxed {name}");
    for b in &blocks {
        if b.len() == tsize {
            for (k, o) in &inline_pos {
                for (i, chunk) in raws[*k].chunks_exact(8).enumerate() {
                    if chunk.iter().filter(|x| **x != 0).count() < 6 {
                        continue;
                    }
                    let at = o + 8 * i;
                    ensure!(
                        ctx,
                        b[at..at + 8] != *chunk,
                        &format!("C20/secret-left-after-drop/{name}"),
                        "after dropping a {name} a limb of its secret scalar ({}) is still present in the storage it occupied (offset {at} of the {tsize}-byte value; {desc})",
                        hex::encode(chunk)
                    );
                }
            }
        } else {
            for l in &lm {
                ensure!(ctx, !find(std::slice::from_ref(b), l), &format!("C20/secret-left-after-drop/{name}"), "after dropping a {name} a limb of its secret scalar ({}) is still present in a {}-byte buffer it owned ({desc})", hex::encode(l), b.len());
            }
        }
    }
    ctx.label(&format!("drop:{name}"));
    Ok(())
}

/// does `text` contain an encoding of the secret? returns the kind of match
pub fn leaks(text: &str, secret_canonical: &[u8], secret_raw: &[u8]) -> Option<String> {
    let lower = text.to_lowercase();
    let hex_only: String = lower.chars().filter(|c| c.is_ascii_hexdigit()).collect();
    // "0x12, 0x34" style: remove the 0x prefixes first
    let no0x: String = lower.replace("0x", "").chars().filter(|c| c.is_ascii_hexdigit()).collect();
    let digits_lists: String = lower.chars().filter(|c| c.is_ascii_digit() || *c == ',').collect();
    let mut reversed = secret_canonical.to_vec();
    reversed.reverse();
    for (what, bytes) in [("canonical", secret_canonical.to_vec()), ("reversed", reversed), ("memory", secret_raw.to_vec())] {
        for w in bytes.windows(8) {
            if w.iter().filter(|b| **b != 0).count() < 6 {
                continue;
            }
            let hx = hex::encode(w);
            if lower.contains(&hx) || hex_only.contains(&hx) || no0x.contains(&hx) {
                return Some(format!("hex of 8 {what} bytes {hx}"));
            }
            let dec: Vec<String> = w.iter().map(|b| b.to_string()).collect();
            let dl = dec.join(",");
            if digits_lists.contains(&dl) {
                return Some(format!("decimal byte list of 8 {what} bytes [{dl}]"));
            }
        }
        for c in bytes.chunks_exact(8) {
            let arr: [u8; 8] = c.try_into().unwrap();
            for v in [u64::from_le_bytes(arr), u64::from_be_bytes(arr)] {
                if v >> 40 == 0 {
                    continue;
                }
                if lower.contains(&v.to_string()) {
                    return Some(format!("u64 limb {v} of the {what} bytes in decimal"));
                }
            }
            let (a, b) = (u32::from_le_bytes(arr[..4].try_into().unwrap()), u32::from_le_bytes(arr[4..].try_into().unwrap()));
            if a >> 16 != 0 && b >> 16 != 0 && (digits_lists.contains(&format!("{a},{b}")) || digits_lists.contains(&format!("{b},{a}"))) {
                return Some(format!("u32 limbs {a},{b} of the {what} bytes in decimal"));
            }
        }
    }
    None
}

fn observe_debug<C: Suite, T: core::fmt::Debug>(ctx: &mut Ctx, name: &str, value: &T, secrets: &[Sc<C>], desc: &str) -> CheckResult {
    ctx.eval(&format!("debug,{name},{desc}"), true);
    for text in [format!("{value:?}"), format!("{value:#?}")] {
        for s in secrets {
            if let Some(how) = leaks(&text, &sc_bytes::<C>(s), &raw::<C>(s)) {
                ctx.fail(&format!("C20/secret-in-debug-output/{name}"), format!("debug rendering of {name} contains {how} ({desc}): {}", &text[..text.len().min(300)]))?;
            }
        }
    }
    ctx.label(&format!("debug:{name}"));
    Ok(())
}

fn check<C: Suite>(case: &Case, ctx: &mut Ctx) -> CheckResult {
    let shape = Shape { n: case.shape.n.max(2), t: case.shape.t.clamp(2, case.shape.n.max(2)) };
    let desc = format!("{},{}", shape.n, shape.t);
    let mut rng = Sm(case.seed ^ 0xc20);
    let z = zero::<C>();
    let keys = make_keys::<C>(shape, case.ids, if case.dkg { KeySource::Dkg } else { KeySource::Split }, case.seed, "C20")?;
    let me = keys.ids[rng.below(shape.n as u64) as usize];

    // debug control: a formatter that prints the scalar is detected by `leaks`
    {
        let s = sc_rand_nonzero::<C>(rng.next());
        let ch = frost::Challenge::<C>::from_scalar(s);
        let text = format!("{ch:?}");
        if leaks(&text, &sc_bytes::<C>(&s), &raw::<C>(&s)).is_none() {
            return Err(inconclusive("C20 debug control: a rendering that contains the scalar was not detected"));
        }
        let arr = format!("{:?}", sc_bytes::<C>(&s));
        if leaks(&arr, &sc_bytes::<C>(&s), &raw::<C>(&s)).is_none() {
            return Err(inconclusive("C20 debug control: a decimal byte list of the scalar was not detected"));
        }
        ctx.label("debug-control-detected");
    }

    // ---- SigningKey
    {
        let sk = match &keys.signing_key {
            Some(k) => k.clone(),
            None => frost::SigningKey::<C>::new(&mut crate::tape::Tape::random(rng.next())),
        };
        let s = sk.clone().to_scalar();
        observe_drop::<C, _>(ctx, "SigningKey", &sk, &[s], false, &desc)?;
        observe_debug::<C, _>(ctx, "SigningKey", &sk, &[s], &desc)?;
    }
    // ---- SigningShare (Copy: zeroize + debug only)
    {
        let mut sh: SigningShare<C> = *keys.kps[&me].signing_share();
        let s = sh.to_scalar();
        observe_debug::<C, _>(ctx, "SigningShare", &sh, &[s], &desc)?;
        sh.zeroize();
        ctx.eval(&format!("zeroize,SigningShare,{desc}"), true);
        ensure!(ctx, sh.to_scalar() == z, "C20/zeroize-leaves-secret/SigningShare", "SigningShare::zeroize left a non-zero share");
        ctx.label("zeroize:SigningShare");
    }
    // ---- SecretShare
    {
        let ss: SecretShare<C> = match &keys.secret_shares {
            Some(m) => m[&me].clone(),
            None => {
                let d = dealer_keys::<C>(shape, case.ids, KeySource::Dealer, rng.next(), "C20")?;
                d.secret_shares.unwrap().values().next().unwrap().clone()
            }
        };
        let s = ss.signing_share().to_scalar();
        observe_drop::<C, _>(ctx, "SecretShare", &ss, &[s], false, &desc)?;
        observe_debug::<C, _>(ctx, "SecretShare", &ss, &[s], &desc)?;
        let mut m = ss.clone();
        m.zeroize();
        ctx.eval(&format!("zeroize,SecretShare,{desc}"), true);
        ensure!(ctx, m.signing_share().to_scalar() == z, "C20/zeroize-leaves-secret/SecretShare", "SecretShare::zeroize left a non-zero share");
        ctx.label("zeroize:SecretShare");
    }
    // ---- KeyPackage
    {
        let kp: KeyPackage<C> = keys.kps[&me].clone();
        let s = kp.signing_share().to_scalar();
        observe_drop::<C, _>(ctx, "KeyPackage", &kp, &[s], false, &desc)?;
        observe_debug::<C, _>(ctx, "KeyPackage", &kp, &[s], &desc)?;
        let mut m = kp.clone();
        m.zeroize();
        ctx.eval(&format!("zeroize,KeyPackage,{desc}"), true);
        ensure!(ctx, m.signing_share().to_scalar() == z, "C20/zeroize-leaves-secret/KeyPackage", "KeyPackage::zeroize left a non-zero share");
        ctx.label("zeroize:KeyPackage");
    }
    // ---- SigningNonces
    {
        let (n, _) = frost::round1::commit::<C, _>(keys.kps[&me].signing_share(), &mut crate::tape::Tape::random(rng.next()));
        let secrets = [n.hiding().to_scalar(), n.binding().to_scalar()];
        observe_drop::<C, SigningNonces<C>>(ctx, "SigningNonces", &n, &secrets, false, &desc)?;
        observe_debug::<C, _>(ctx, "SigningNonces", &n, &secrets, &desc)?;
        let mut m = n.clone();
        m.zeroize();
        ctx.eval(&format!("zeroize,SigningNonces,{desc}"), true);
        ensure!(ctx, m.hiding().to_scalar() == z && m.binding().to_scalar() == z, "C20/zeroize-leaves-secret/SigningNonces", "SigningNonces::zeroize left a non-zero nonce");
        ctx.label("zeroize:SigningNonces");
    }
    // ---- DKG packages
    let keys_ids = keys.ids.clone();
    let run = match keys.dkg {
        Some(r) => r,
        None => dkg_rounds::<C>(shape, &keys.ids, rng.next(), "C20")?,
    };
    {
        let sp: dkg::round1::SecretPackage<C> = run.r1_secret[&me].clone();
        let secrets = sp.coefficients();
        observe_drop::<C, _>(ctx, "dkg-round1-SecretPackage", &sp, &secrets, true, &desc)?;
        observe_debug::<C, _>(ctx, "dkg-round1-SecretPackage", &sp, &secrets, &desc)?;
        let mut m = sp.clone();
        m.zeroize();
        ctx.eval(&format!("zeroize,dkg-round1-SecretPackage,{desc}"), true);
        ensure!(ctx, m.coefficients().iter().all(|c| *c == z), "C20/zeroize-leaves-secret/dkg-round1-SecretPackage", "round1::SecretPackage::zeroize left non-zero coefficients");
        ctx.label("zeroize:dkg-round1-SecretPackage");
    }
    {
        let sp: dkg::round2::SecretPackage<C> = run.r2_secret[&me].clone();
        let secrets = [sp.secret_share()];
        observe_drop::<C, _>(ctx, "dkg-round2-SecretPackage", &sp, &secrets, false, &desc)?;
        observe_debug::<C, _>(ctx, "dkg-round2-SecretPackage", &sp, &secrets, &desc)?;
        let mut m = sp.clone();
        m.zeroize();
        ctx.eval(&format!("zeroize,dkg-round2-SecretPackage,{desc}"), true);
        ensure!(ctx, m.secret_share() == z, "C20/zeroize-leaves-secret/dkg-round2-SecretPackage", "round2::SecretPackage::zeroize left a non-zero share");
        ctx.label("zeroize:dkg-round2-SecretPackage");
    }
    {
        let p: dkg::round2::Package<C> = run.r2_pkg[&me].values().next().unwrap().clone();
        let secrets = [p.signing_share().to_scalar()];
        observe_drop::<C, _>(ctx, "dkg-round2-Package", &p, &secrets, false, &desc)?;
        observe_debug::<C, _>(ctx, "dkg-round2-Package", &p, &secrets, &desc)?;
        let mut m = p.clone();
        m.zeroize();
        ctx.eval(&format!("zeroize,dkg-round2-Package,{desc}"), true);
        ensure!(ctx, m.signing_share().to_scalar() == z, "C20/zeroize-leaves-secret/dkg-round2-Package", "round2::Package::zeroize left a non-zero share");
        ctx.label("zeroize:dkg-round2-Package");
    }
    // ---- a round-one secret package ends its life inside the function that consumes it (dkg::part2 takes it by
    // value): the heap storage the package occupied must be wiped when that function lets go of it, whichever way
    // the function ends. The package's own blocks are identified by address: they are the ones allocated while the
    // clone handed to part2 was made.
    {
        let (r1, _) = dkg_inputs_for(&run, &me);
        for variant in ["ok", "err"] {
            let sp: dkg::round1::SecretPackage<C> = run.r1_secret[&me].clone();
            let secrets = sp.coefficients();
            let lm = limbs(&secrets.iter().map(raw::<C>).collect::<Vec<_>>());
            if lm.is_empty() {
                continue;
            }
            let mut input = r1.clone();
            if variant == "err" {
                // a missing contribution: part2 returns an error after it has taken the package
                let k = *input.keys().next().unwrap();
                input.remove(&k);
            }
            ctx.eval(&format!("consumed,dkg-part2-{variant},{desc}"), true);
            let (owned_pkg, allocs, _) = capture_full(|| black_box(sp.clone()));
            let owned: Vec<(usize, usize)> = allocs.into_iter().filter(|(_, sz)| *sz >= lm.len() * 8).collect();
            let (res, _, freed) = capture_full(move || dkg::part2(owned_pkg, black_box(&input)).map(|(a, b)| (black_box(a), black_box(b))));
            let mut seen = 0;
            for (addr, content) in &freed {
                if owned.iter().any(|(a, sz)| a == addr && *sz == content.len()) {
                    seen += 1;
                    for l in &lm {
                        ensure!(ctx, !find(std::slice::from_ref(content), l), "C20/secret-left-after-drop/dkg-round1-SecretPackage-consumed-by-part2", "dkg::part2 ({variant} path) released the coefficient storage of the round-one secret package it consumed with a limb of a secret coefficient ({}) still in it ({desc})", hex::encode(l));
                    }
                }
            }
            if seen > 0 {
                ctx.label(&format!("consumed-by-part2:{variant}"));
            }
            drop(res);
        }
    }
    // ---- the same for the distributed refresh: refresh_dkg_part2 consumes the refresh round-one secret package
    {
        let rr = crate::props::c10::dkg_refresh_rounds::<C>(&keys_ids, shape.t, rng.next(), "C20")?;
        let (r1, _) = crate::props::c10::dkg_refresh_inputs(&rr, &me);
        let sp: dkg::round1::SecretPackage<C> = rr.r1_secret[&me].clone();
        let secrets: Vec<Sc<C>> = sp.coefficients().into_iter().filter(|c| *c != z).collect();
        let lm = limbs(&secrets.iter().map(raw::<C>).collect::<Vec<_>>());
        if !lm.is_empty() {
            ctx.eval(&format!("consumed,refresh-dkg-part2,{desc}"), true);
            let (owned_pkg, allocs, _) = capture_full(|| black_box(sp.clone()));
            let owned: Vec<(usize, usize)> = allocs.into_iter().filter(|(_, sz)| *sz >= lm.len() * 8).collect();
            let (res, _, freed) = capture_full(move || frost::keys::refresh::refresh_dkg_part2(owned_pkg, black_box(&r1)).map(|(a, b)| (black_box(a), black_box(b))));
            let mut seen = 0;
            for (addr, content) in &freed {
                if owned.iter().any(|(a, sz)| a == addr && *sz == content.len()) {
                    seen += 1;
                    for l in &lm {
                        ensure!(ctx, !find(std::slice::from_ref(content), l), "C20/secret-left-after-drop/refresh-round1-SecretPackage-consumed-by-part2", "refresh_dkg_part2 released the coefficient storage of the secret package it consumed with a limb of a secret coefficient ({}) still in it ({desc})", hex::encode(l));
                    }
                }
            }
            if seen > 0 && res.is_ok() {
                ctx.label("consumed-by-refresh-part2:ok");
            }
            drop(res);
        }
    }
    // ---- refresh variant of the round-one secret package
    {
        let (sp, _) = frost::keys::refresh::refresh_dkg_part1::<C, _>(me, shape.n, shape.t, crate::tape::Tape::random(rng.next())).map_err(|e| inconclusive(format!("{e:?}")))?;
        // the constant coefficient is zero by construction
        let secrets: Vec<Sc<C>> = sp.coefficients().into_iter().filter(|c| *c != z).collect();
        observe_drop::<C, _>(ctx, "refresh-round1-SecretPackage", &sp, &secrets, true, &desc)?;
        observe_debug::<C, _>(ctx, "refresh-round1-SecretPackage", &sp, &secrets, &desc)?;
        let mut m = sp.clone();
        m.zeroize();
        ctx.eval(&format!("zeroize,refresh-round1-SecretPackage,{desc}"), true);
        ensure!(ctx, m.coefficients().iter().all(|c| *c == z), "C20/zeroize-leaves-secret/refresh-round1-SecretPackage", "refresh round1::SecretPackage::zeroize left non-zero coefficients");
        ctx.label("zeroize:refresh-round1-SecretPackage");
    }
    Ok(())
}
