//! C10 — refreshing shares keeps the group key, re-links all packages, retires old shares.

use crate::common::*;
use crate::engine::*;
use crate::props::c03::modes;
use crate::props::c04::share_scalar;
use crate::suites::*;
use crate::tape::{Sm, Tape};
use crate::{dispatch, ensure};
use frost_core as frost;
use frost_core::keys::dkg::{round1, round2};
use frost_core::keys::refresh;
use frost_core::keys::{IdentifierList, KeyPackage, PublicKeyPackage, SecretShare, VerifiableSecretSharingCommitment};
use frost_core::{SigningKey, SigningPackage};
use proptest::prelude::*;
use serde::{Deserialize, Serialize};
use std::collections::BTreeMap;

pub struct C10;

#[derive(Clone, Debug, Serialize, Deserialize)]
pub struct Case {
    pub shape: Shape,
    pub ids: IdSpec,
    pub source: KeySource,
    /// true = distributed refresh, false = trusted dealer refresh
    pub dkg_refresh: bool,
    pub rounds: u8,
    /// how many participants are dropped per round (selector, clamped so that |R| >= t)
    pub drop_sel: u16,
    pub msg: MsgSpec,
    pub seed: u64,
}

impl Property for C10 {
    type Case = Case;
    fn id(&self) -> &'static str {
        "C10"
    }
    fn level(&self) -> &'static str {
        "exploration"
    }
    fn rule(&self) -> String {
        "scenario = (suite, n, t, identifier style, key source dealer/DKG/dealer+repair/lifecycle history, refresh procedure dealer/DKG, 1-3 consecutive refreshes, remaining \
         set R of every size >= t incl. several removed participants, message, seeds). After every refresh: package invariants, a new-only \
         t-subset and the full remaining set sign, EVERY old/new mix over a t-subset (2^t-2 mixes for t <= 4, sampled above) is aggregated \
         against the old and the refreshed public package in all detection modes and hand-summed, a removed participant joins a signer \
         set, and the invalid refresh inputs (non-zero constant term, changed threshold, unknown participant) are tried. One evaluation \
         per refresh round, per mix and per invalid input. non-trivial = anything but (5 participants, one removed, t=3, new shares only); \
         distinct = distinct (suite, n, t, |R|, id style, source, procedure, round, probe descriptor) tuples"
            .into()
    }
    fn assumptions(&self) -> Vec<String> {
        vec![
            "'retires old shares' is read as: mixing pre- and post-refresh shares fails and a removed participant cannot take part in a session coordinated with the refreshed package; t old shares among themselves remain a sharing of the same key (mathematically unavoidable) and are not asserted to fail".into(),
            "a refreshed share coinciding with the old one has negligible probability".into(),
        ]
    }
    fn plan(&self, suite: SuiteId, tier: Tier) -> Vec<(u32, u32)> {
        let per = match (tier, suite.slow()) {
            (Tier::Quick, false) => 20,
            (Tier::Quick, true) => 4,
            (Tier::Thorough, false) => 1200,
            (Tier::Thorough, true) => 150,
        };
        // strata: key source (dealer, DKG, dealer+repair, lifecycle history) x procedure; the two derived sources get half
        (0..8).map(|s| (s, if s < 4 { per } else { (per / 2).max(1) })).collect()
    }
    fn chunk(&self, suite: SuiteId) -> u32 {
        if suite.slow() { 1 } else { 5 }
    }
    fn max_shrink_iters(&self) -> u32 {
        128
    }
    fn strategy(&self, suite: SuiteId, tier: Tier, stratum: u32) -> BoxedStrategy<Case> {
        let source = match (stratum & 1, stratum >> 2) {
            (0, 0) => KeySource::Dealer,
            (1, 0) => KeySource::Dkg,
            (0, _) => KeySource::Repaired,
            _ => KeySource::History(0),
        };
        let dkg_refresh = stratum & 2 == 2;
        let nmax = match (tier, suite.slow()) {
            (Tier::Quick, false) => 7,
            (Tier::Quick, true) => 4,
            (Tier::Thorough, false) => 10,
            (Tier::Thorough, true) => 6,
        };
        (shape_strategy(nmax), idspec_strategy(None), 1u8..=3, any::<u16>(), msg_short_strategy(), any::<u64>())
            .prop_map(move |(shape, ids, rounds, drop_sel, msg, seed)| Case { shape, ids, source, dkg_refresh, rounds, drop_sel, msg, seed })
            .boxed()
    }
    fn required_labels(&self, tier: Tier) -> Vec<(String, u64)> {
        let m = tier.pick(20, 200);
        vec![
            ("refresh:dealer".into(), m),
            ("refresh:dkg".into(), m),
            ("src:dealer+repair".into(), m / 2),
            ("src:history".into(), m / 2),
            ("removed>=2".into(), m / 2),
            ("removed=0".into(), m / 2),
            ("round>=2".into(), m),
            ("procedure-switched-between-rounds".into(), m / 4),
            ("mix".into(), m * 2),
            ("removed-participant-signs".into(), m / 2),
            ("invalid:nonzero-constant".into(), m),
            ("invalid:changed-threshold".into(), m / 2),
            ("invalid:unknown-participant".into(), m),
        ]
    }
    fn check(&self, suite: SuiteId, case: &Case, ctx: &mut Ctx) -> CheckResult {
        dispatch!(suite, check(case, ctx))
    }
}

type Kps<C> = BTreeMap<Id<C>, KeyPackage<C>>;

pub struct DkgRefresh<C: Suite> {
    pub r1_secret: BTreeMap<Id<C>, round1::SecretPackage<C>>,
    pub r1_pkg: BTreeMap<Id<C>, round1::Package<C>>,
    pub r2_secret: BTreeMap<Id<C>, round2::SecretPackage<C>>,
    pub r2_pkg: BTreeMap<Id<C>, BTreeMap<Id<C>, round2::Package<C>>>,
}

pub fn refresh_part1_tape(seed: u64, k: usize) -> Tape {
    Tape::random(seed ^ (0x4ef_0000 + k as u64).wrapping_mul(0x9e37_79b9))
}

pub fn dkg_refresh_rounds<C: Suite>(remaining: &[Id<C>], t: u16, seed: u64, key: &str) -> Result<DkgRefresh<C>, Failure> {
    let m = remaining.len() as u16;
    let mut r1_secret = BTreeMap::new();
    let mut r1_pkg = BTreeMap::new();
    for (k, id) in remaining.iter().enumerate() {
        let tape = refresh_part1_tape(seed, k);
        match refresh::refresh_dkg_part1::<C, _>(*id, m, t, tape) {
            Ok((s, p)) => {
                r1_secret.insert(*id, s);
                r1_pkg.insert(*id, p);
            }
            Err(e) => return fail(&format!("{key}/refresh-part1"), format!("refresh_dkg_part1 failed: {e:?}")),
        }
    }
    let mut r2_secret = BTreeMap::new();
    let mut r2_pkg = BTreeMap::new();
    for id in remaining {
        let others: BTreeMap<_, _> = r1_pkg.iter().filter(|(k, _)| *k != id).map(|(k, v)| (*k, v.clone())).collect();
        match refresh::refresh_dkg_part2(r1_secret[id].clone(), &others) {
            Ok((s, p)) => {
                r2_secret.insert(*id, s);
                r2_pkg.insert(*id, p);
            }
            Err(e) => return fail(&format!("{key}/refresh-part2"), format!("honest refresh_dkg_part2 failed: {e:?}")),
        }
    }
    Ok(DkgRefresh { r1_secret, r1_pkg, r2_secret, r2_pkg })
}

pub fn dkg_refresh_inputs<C: Suite>(run: &DkgRefresh<C>, me: &Id<C>) -> (BTreeMap<Id<C>, round1::Package<C>>, BTreeMap<Id<C>, round2::Package<C>>) {
    let r1: BTreeMap<_, _> = run.r1_pkg.iter().filter(|(k, _)| *k != me).map(|(k, v)| (*k, v.clone())).collect();
    let r2: BTreeMap<_, _> = run.r2_pkg.iter().filter(|(k, _)| *k != me).filter_map(|(k, m)| m.get(me).map(|p| (*k, p.clone()))).collect();
    (r1, r2)
}

/// run one honest refresh; returns the refreshed key packages and public key package(s)
pub fn do_refresh<C: Suite>(
    ctx: &mut Ctx,
    old_kps: &Kps<C>,
    old_pk: &PublicKeyPackage<C>,
    remaining: &[Id<C>],
    t: u16,
    dkg_refresh: bool,
    seed: u64,
    desc: &str,
) -> Result<(Kps<C>, PublicKeyPackage<C>), Failure> {
    let mut new_kps = BTreeMap::new();
    if dkg_refresh {
        let run = dkg_refresh_rounds::<C>(remaining, t, seed, "C10")?;
        let mut pk0: Option<PublicKeyPackage<C>> = None;
        for id in remaining {
            let (r1, r2) = dkg_refresh_inputs(&run, id);
            match refresh::refresh_dkg_shares(&run.r2_secret[id], &r1, &r2, old_pk.clone(), old_kps[id].clone()) {
                Ok((kp, pk)) => {
                    if let Some(p0) = &pk0 {
                        if *p0 != pk {
                            ctx.fail("C10/dkg-refresh/public-packages-differ", format!("participants obtained different refreshed public key packages ({desc})"))?;
                        }
                    }
                    pk0 = Some(pk);
                    new_kps.insert(*id, kp);
                }
                Err(e) => return fail("C10/dkg-refresh/honest-refresh-failed", format!("refresh_dkg_shares failed for honest participant {}: {e:?} ({desc})", id_hex::<C>(id))),
            }
        }
        Ok((new_kps, pk0.unwrap()))
    } else {
        let mut tape = Tape::random(seed ^ 0xdea1_4ef);
        let (shares, pk) = match refresh::compute_refreshing_shares::<C, _>(old_pk.clone(), remaining, &mut tape) {
            Ok(x) => x,
            Err(e) => return fail("C10/dealer-refresh/honest-refresh-failed", format!("compute_refreshing_shares failed: {e:?} ({desc})")),
        };
        if shares.len() != remaining.len() {
            return fail("C10/dealer-refresh/share-count", format!("{} refreshing shares for {} participants", shares.len(), remaining.len()));
        }
        for id in remaining.iter() {
            // every participant takes the refreshing share that carries its identifier
            let sh = match shares.iter().find(|s| s.identifier() == id) {
                Some(s) => s,
                None => return fail("C10/dealer-refresh/share-missing", format!("no refreshing share for remaining participant {} ({desc})", id_hex::<C>(id))),
            };
            match refresh::refresh_share(sh.clone(), &old_kps[id]) {
                Ok(kp) => {
                    new_kps.insert(*id, kp);
                }
                Err(e) => return fail("C10/dealer-refresh/honest-refresh-failed", format!("refresh_share failed for honest participant {}: {e:?} ({desc})", id_hex::<C>(id))),
            }
        }
        Ok((new_kps, pk))
    }
}

fn try_sign<C: Suite>(kps_by_signer: &Kps<C>, signers: &[Id<C>], msg: &[u8], seed: u64) -> Option<(SigningPackage<C>, BTreeMap<Id<C>, frost::round2::SignatureShare<C>>)> {
    let (nonces, comms) = commit_all::<C>(kps_by_signer, signers, seed);
    let package = SigningPackage::new(comms, msg);
    let mut shares = BTreeMap::new();
    for id in signers {
        match frost::round2::sign(&package, &nonces[id], &kps_by_signer[id]) {
            Ok(s) => {
                shares.insert(*id, s);
            }
            Err(_) => return None,
        }
    }
    Some((package, shares))
}

fn must_fail<C: Suite>(ctx: &mut Ctx, package: &SigningPackage<C>, shares: &BTreeMap<Id<C>, frost::round2::SignatureShare<C>>, pk: &PublicKeyPackage<C>, msg: &[u8], key: &str, desc: &str) -> CheckResult {
    for (name, mode) in modes() {
        let r = frost::aggregate_custom(package, shares, pk, mode);
        ensure!(ctx, r.is_err(), key, "aggregate_custom({name}) succeeded ({desc})");
    }
    // hand-summed signature
    let vk = pk.verifying_key();
    if let Ok(bfl) = frost::compute_binding_factor_list(package, &crate::props::c03::even_vk::<C>(vk), &[]) {
        if let Ok(gc) = frost::compute_group_commitment(package, &bfl) {
            let mut z = zero::<C>();
            for s in shares.values() {
                z = z + share_scalar::<C>(s);
            }
            let sig = frost::Signature::<C>::new(gc.to_element(), z);
            ensure!(ctx, vk.verify(msg, &sig).is_err(), key, "the summed shares verify under the group key ({desc})");
        }
    }
    Ok(())
}

fn check<C: Suite>(case: &Case, ctx: &mut Ctx) -> CheckResult {
    let shape = Shape { n: case.shape.n.max(2), t: case.shape.t.clamp(2, case.shape.n.max(2)) };
    let (n, t) = (shape.n as usize, shape.t as usize);
    // the ciphersuite crate's own keys::refresh::* give what the generic functions give
    crate::wrappers::differential::<C>(ctx, "C10", crate::wrappers::Part::Refresh, case.seed)?;
    let keys = make_keys::<C>(shape, case.ids, case.source, case.seed, "C10")?;
    ctx.label(&format!("src:{}", case.source.name()));
    let msg = case.msg.bytes();
    let mut rng = Sm(case.seed ^ 0xc10);
    let vk0 = *keys.pubkeys.verifying_key();
    let mut cur_kps: Kps<C> = keys.kps.clone();
    let mut cur_pk = keys.pubkeys.clone();
    let mut members: Vec<Id<C>> = keys.ids.clone();
    let proc_name = if case.dkg_refresh { "dkg" } else { "dealer" };
    ctx.label(&format!("refresh:{proc_name}"));

    for round in 1..=case.rounds.clamp(1, 3) {
        // choose the remaining set: drop 0..=(|members|-t) participants, scattered
        let max_drop = members.len() - t;
        let dropn = if round == 1 { idx(case.drop_sel, max_drop + 1) } else { rng.below(max_drop as u64 + 1) as usize };
        let keep = make_subset(members.len(), members.len() - dropn, SubsetSpec { class: SubsetClass::Scattered, extra: 0, seed: rng.next() });
        // note: compute_refreshing_shares takes the identifiers in caller order: shuffle them
        let mut remaining: Vec<Id<C>> = keep.iter().map(|i| members[*i]).collect();
        if rng.below(2) == 1 {
            remaining.reverse();
        }
        let removed: Vec<Id<C>> = members.iter().filter(|i| !remaining.contains(i)).copied().collect();
        let desc = format!("n={n} t={t} ids={} source={} procedure={proc_name} round={round} |R|={} removed={}", case.ids.style.name(), case.source.name(), remaining.len(), removed.len());
        let trivial = n == 5 && t == 3 && removed.len() == 1 && round == 1 && case.ids.style == IdStyle::Default;
        ctx.eval(&format!("{n},{t},{},{},{},{proc_name},{round},refresh", remaining.len(), case.ids.style.name(), case.source.name()), !trivial);
        if removed.len() >= 2 {
            ctx.label("removed>=2");
        }
        if removed.is_empty() {
            ctx.label("removed=0");
        }
        if round >= 2 {
            ctx.label("round>=2");
        }
        if remaining.len() < 2 {
            // |R| = 1 is impossible since t >= 2
            break;
        }
        // later rounds may switch between the dealer and the distributed procedure
        let use_dkg = if round > 1 && case.seed & 2 == 2 { !case.dkg_refresh } else { case.dkg_refresh };
        if use_dkg != case.dkg_refresh {
            ctx.label("procedure-switched-between-rounds");
        }
        let proc_name = if use_dkg { "dkg" } else { "dealer" };
        let (new_kps, new_pk) = do_refresh::<C>(ctx, &cur_kps, &cur_pk, &remaining, shape.t, use_dkg, rng.next(), &desc)?;

        // ---- invariants
        ensure!(ctx, *new_pk.verifying_key() == vk0, &format!("C10/{proc_name}-refresh/group-key-changed"), "group verifying key changed by the refresh ({desc})");
        let mut sorted_r = remaining.clone();
        sorted_r.sort();
        ensure!(ctx, new_pk.verifying_shares().keys().copied().collect::<Vec<_>>() == sorted_r, &format!("C10/{proc_name}-refresh/participant-set"), "refreshed public key package does not list exactly the remaining participants ({desc})");
        ensure!(ctx, new_pk.min_signers() == Some(shape.t), &format!("C10/{proc_name}-refresh/threshold"), "refreshed public key package threshold {:?}, expected {t} ({desc})", new_pk.min_signers());
        for id in &remaining {
            let kp = &new_kps[id];
            ensure!(ctx, kp.identifier() == id, &format!("C10/{proc_name}-refresh/identifier"), "refreshed key package has another identifier ({desc})");
            ensure!(ctx, *kp.min_signers() == shape.t, &format!("C10/{proc_name}-refresh/threshold"), "refreshed key package threshold {}, expected {t} ({desc})", kp.min_signers());
            ensure!(ctx, *kp.verifying_key() == vk0, &format!("C10/{proc_name}-refresh/group-key-changed"), "refreshed key package holds another group key ({desc})");
            let gs = gen_::<C>() * kp.signing_share().to_scalar();
            ensure!(
                ctx,
                new_pk.verifying_shares().get(id).map(|v| v.to_element()) == Some(gs),
                &format!("C10/{proc_name}-refresh/public-entry-not-G-times-share"),
                "refreshed public key package entry of {} != G * its new signing share ({desc})",
                id_hex::<C>(id)
            );
            ensure!(
                ctx,
                kp.verifying_share().to_element() == gs,
                &format!("C10/{proc_name}-refresh/key-package-verifying-share-stale"),
                "refreshed key package of {}: verifying share != G * new signing share (equals the pre-refresh verifying share: {}) ({desc})",
                id_hex::<C>(id),
                kp.verifying_share().to_element() == cur_kps[id].verifying_share().to_element()
            );
            ensure!(ctx, kp.signing_share().to_scalar() != cur_kps[id].signing_share().to_scalar(), &format!("C10/{proc_name}-refresh/share-unchanged"), "signing share did not change ({desc})");
        }
        // the refreshed shares still share the same key: t of them interpolate to the old secret
        {
            let sub = make_subset(sorted_r.len(), t, SubsetSpec { class: SubsetClass::Scattered, extra: 0, seed: rng.next() });
            let xs: Vec<Sc<C>> = sub.iter().map(|i| sorted_r[*i].to_scalar()).collect();
            let mut acc = zero::<C>();
            for i in &sub {
                acc = acc + lagrange::<C>(&xs, sorted_r[*i].to_scalar(), None) * new_kps[&sorted_r[*i]].signing_share().to_scalar();
            }
            let g = gen_::<C>() * acc;
            ensure!(ctx, g == vk0.to_element() || (C::SID.taproot() && el_neg::<C>(g) == vk0.to_element()), &format!("C10/{proc_name}-refresh/secret-changed"), "t refreshed shares no longer interpolate to the group secret ({desc})");
        }

        // ---- new-only sets sign and verify: a scattered t-subset and all of R
        for (k, sub) in [make_subset(sorted_r.len(), t, SubsetSpec { class: SubsetClass::Scattered, extra: 0, seed: rng.next() }), (0..sorted_r.len()).collect::<Vec<_>>()].iter().enumerate() {
            let signers: Vec<Id<C>> = sub.iter().map(|i| sorted_r[*i]).collect();
            let sess = run_session::<C>(&new_kps, &signers, &msg, rng.next(), "C10")?;
            match frost::aggregate(&sess.package, &sess.shares, &new_pk) {
                Ok(sig) => {
                    let b = sig_bytes::<C>(&sig)?;
                    let iv = independent_verify::<C>(ctx, &vk0, &msg, &b, false)?;
                    ensure!(ctx, vk0.verify(&msg, &sig).is_ok() && iv != Some(false), &format!("C10/{proc_name}-refresh/new-shares-cannot-sign"), "signature by refreshed participants does not verify ({desc}, set {k})");
                }
                Err(e) => ctx.fail(&format!("C10/{proc_name}-refresh/new-shares-cannot-sign"), format!("refreshed participants cannot sign ({desc}, set {k}): {e:?}"))?,
            }
            for id in &signers {
                let r = frost::verify_signature_share(*id, &new_pk.verifying_shares()[id], &sess.shares[id], &sess.package, &vk0);
                ensure!(ctx, r.is_ok(), &format!("C10/{proc_name}-refresh/new-shares-cannot-sign"), "share of refreshed participant rejected against the refreshed package ({desc})");
            }
        }

        // ---- every old/new mix over a t-subset fails
        {
            let sub = make_subset(sorted_r.len(), t, SubsetSpec { class: SubsetClass::Scattered, extra: 0, seed: rng.next() });
            let signers: Vec<Id<C>> = sub.iter().map(|i| sorted_r[*i]).collect();
            let masks: Vec<u32> = if t <= 4 { (1..(1u32 << t) - 1).collect() } else { (0..10).map(|_| 1 + rng.below((1u64 << t) - 2) as u32).collect() };
            for mask in masks {
                let mut mixed: Kps<C> = BTreeMap::new();
                for (i, id) in signers.iter().enumerate() {
                    mixed.insert(*id, if mask >> i & 1 == 1 { cur_kps[id].clone() } else { new_kps[id].clone() });
                }
                ctx.eval(&format!("{n},{t},{},{proc_name},{round},mix,{mask:b}", remaining.len()), true);
                ctx.label("mix");
                if let Some((package, shares)) = try_sign::<C>(&mixed, &signers, &msg, rng.next()) {
                    let d = format!("{desc}; signers using pre-refresh shares: mask {mask:b}");
                    must_fail::<C>(ctx, &package, &shares, &new_pk, &msg, &format!("C10/{proc_name}-refresh/old-new-mix-accepted"), &format!("{d}; refreshed public package"))?;
                    // the pre-refresh package lists all previous members, so it can be used with this signer set
                    must_fail::<C>(ctx, &package, &shares, &cur_pk, &msg, &format!("C10/{proc_name}-refresh/old-new-mix-accepted"), &format!("{d}; pre-refresh public package"))?;
                }
            }
        }

        // ---- a removed participant joins a signer set coordinated with the refreshed package
        if let Some(rm) = removed.first() {
            ctx.eval(&format!("{n},{t},{},{proc_name},{round},removed-signs", remaining.len()), true);
            ctx.label("removed-participant-signs");
            let sub = make_subset(sorted_r.len(), t - 1, SubsetSpec { class: SubsetClass::Scattered, extra: 0, seed: rng.next() });
            let mut signers: Vec<Id<C>> = sub.iter().map(|i| sorted_r[*i]).collect();
            signers.push(*rm);
            let mut kk: Kps<C> = BTreeMap::new();
            for id in &signers {
                kk.insert(*id, if id == rm { cur_kps[id].clone() } else { new_kps[id].clone() });
            }
            if let Some((package, shares)) = try_sign::<C>(&kk, &signers, &msg, rng.next()) {
                must_fail::<C>(ctx, &package, &shares, &new_pk, &msg, &format!("C10/{proc_name}-refresh/removed-participant-accepted"), &format!("{desc}; removed participant {} in the signer set", id_hex::<C>(rm)))?;
            }
        }

        // ---- invalid refresh inputs (tried against the state *before* this refresh)
        invalid_inputs::<C>(ctx, &cur_kps, &cur_pk, &remaining, shape, case, &mut rng, &desc)?;

        cur_kps = new_kps;
        cur_pk = new_pk;
        members = sorted_r;
    }
    Ok(())
}

fn invalid_inputs<C: Suite>(ctx: &mut Ctx, kps: &Kps<C>, pk: &PublicKeyPackage<C>, remaining: &[Id<C>], shape: Shape, case: &Case, rng: &mut Sm, desc: &str) -> CheckResult {
    let t = shape.t;
    let m = remaining.len() as u16;
    let victim = remaining[rng.below(remaining.len() as u64) as usize];
    let all_ids: Vec<Id<C>> = pk.verifying_shares().keys().copied().collect();
    let unknown = fresh_id::<C>(&all_ids, IdSpec { style: case.ids.style, seed: rng.next() });
    if !case.dkg_refresh {
        // (i) non-zero constant term: shares of an ordinary split, first commitment entry removed
        ctx.eval(&format!("{},{},dealer,invalid,nonzero-constant", shape.n, t), true);
        ctx.label("invalid:nonzero-constant");
        let sk = SigningKey::<C>::new(&mut Tape::random(rng.next()));
        if let Ok((shares, _)) = frost::keys::split(&sk, m, t, IdentifierList::Custom(remaining), &mut Tape::random(rng.next())) {
            let sh = &shares[&victim];
            let mut coeffs = sh.commitment().coefficients().to_vec();
            coeffs.remove(0);
            let bad = SecretShare::<C>::new(victim, *sh.signing_share(), VerifiableSecretSharingCommitment::new(coeffs));
            let r = refresh::refresh_share(bad, &kps[&victim]);
            ensure!(ctx, r.is_err(), "C10/dealer-refresh/nonzero-constant-accepted", "refresh_share accepted a refreshing share whose polynomial has a non-zero constant term ({desc})");
            // ... also when the full commitment (with its non-identity first entry) is passed
            let bad2 = SecretShare::<C>::new(victim, *sh.signing_share(), sh.commitment().clone());
            let r = refresh::refresh_share(bad2, &kps[&victim]);
            ensure!(ctx, r.is_err(), "C10/dealer-refresh/nonzero-constant-accepted", "refresh_share accepted an ordinary dealer share as refreshing share ({desc})");
        }
        // (ii) changed threshold
        for t2 in [t.wrapping_sub(1), t + 1] {
            if t2 < 2 || t2 > m {
                continue;
            }
            ctx.eval(&format!("{},{},dealer,invalid,threshold,{}", shape.n, t, t2 as i32 - t as i32), true);
            ctx.label("invalid:changed-threshold");
            let pk2 = PublicKeyPackage::<C>::new(pk.verifying_shares().clone(), *pk.verifying_key(), Some(t2));
            if let Ok((shares, _)) = refresh::compute_refreshing_shares::<C, _>(pk2, remaining, &mut Tape::random(rng.next())) {
                let sh = match shares.iter().find(|s| *s.identifier() == victim) {
                    Some(s) => s.clone(),
                    None => continue,
                };
                let r = refresh::refresh_share(sh, &kps[&victim]);
                ensure!(ctx, r.is_err(), "C10/dealer-refresh/changed-threshold-accepted", "refresh_share accepted a refreshing share of threshold {t2} for a key package of threshold {t} ({desc})");
            }
        }
        // (ii') changed threshold hidden from 16-bit length fields: the refreshing polynomial has 65536 further
        // coefficients (all equal to e), the share lies on it. Rare: verifying it costs 65536 + t group operations.
        if case.seed % 24 == 3 && !C::SID.slow() {
            if let Ok((shares, _)) = refresh::compute_refreshing_shares::<C, _>(pk.clone(), remaining, &mut Tape::random(rng.next())) {
                if let Some(sh) = shares.iter().find(|s| *s.identifier() == victim) {
                    ctx.eval(&format!("{},{},dealer,invalid,threshold,+65536", shape.n, t), true);
                    ctx.label("invalid:changed-threshold-by-65536");
                    let e = sc_rand_nonzero::<C>(rng.next());
                    let mut coeffs = sh.commitment().coefficients().to_vec();
                    let have = coeffs.len();
                    coeffs.resize(have + 65536, frost::keys::CoefficientCommitment::new(gen_::<C>() * e));
                    // the stripped commitment entry j belongs to the power j+1
                    let x = victim.to_scalar();
                    let mut pw = x;
                    for _ in 0..have {
                        pw = pw * x;
                    }
                    let mut acc = zero::<C>();
                    for _ in 0..65536u32 {
                        acc = acc + pw;
                        pw = pw * x;
                    }
                    let bad = SecretShare::<C>::new(victim, frost::keys::SigningShare::new(sh.signing_share().to_scalar() + e * acc), VerifiableSecretSharingCommitment::new(coeffs));
                    let r = refresh::refresh_share(bad, &kps[&victim]);
                    ensure!(ctx, r.is_err(), "C10/dealer-refresh/changed-threshold-accepted", "refresh_share accepted a refreshing share whose polynomial has {} + 65536 coefficients (threshold {t} + 65536) for a key package of threshold {t} ({desc})", have + 1);
                }
            }
        }
        // (iii) unknown participant
        ctx.eval(&format!("{},{},dealer,invalid,unknown", shape.n, t), true);
        ctx.label("invalid:unknown-participant");
        let mut idl = remaining.to_vec();
        let pos = rng.below(idl.len() as u64 + 1) as usize;
        idl.insert(pos, unknown);
        let r = refresh::compute_refreshing_shares::<C, _>(pk.clone(), &idl, &mut Tape::random(rng.next()));
        ensure!(ctx, r.is_err(), "C10/dealer-refresh/unknown-participant-accepted", "compute_refreshing_shares accepted an identifier that is not in the public key package ({desc})");
        let mut idl2 = remaining.to_vec();
        let pos2 = pos.min(idl2.len() - 1);
        idl2[pos2] = unknown;
        let r = refresh::compute_refreshing_shares::<C, _>(pk.clone(), &idl2, &mut Tape::random(rng.next()));
        ensure!(ctx, r.is_err(), "C10/dealer-refresh/unknown-participant-accepted", "compute_refreshing_shares accepted a replaced identifier that is not in the public key package ({desc})");
    } else {
        let honest = dkg_refresh_rounds::<C>(remaining, t, rng.next(), "C10")?;
        let receiver = *remaining.iter().find(|x| **x != victim).unwrap();
        // (i) one participant (victim) runs the ordinary part1: non-zero constant term
        ctx.eval(&format!("{},{},dkg,invalid,nonzero-constant", shape.n, t), true);
        ctx.label("invalid:nonzero-constant");
        if let Ok((sec, pkg)) = frost::keys::dkg::part1::<C, _>(victim, m, t, Tape::random(rng.next())) {
            // variant a: the full package (t coefficients): wrong length for a refresh
            let (mut r1, r2) = dkg_refresh_inputs(&honest, &receiver);
            r1.insert(victim, pkg.clone());
            let p2 = refresh::refresh_dkg_part2(honest.r1_secret[&receiver].clone(), &r1);
            if let Ok((sec2, _)) = p2 {
                let r = refresh::refresh_dkg_shares(&sec2, &r1, &r2, pk.clone(), kps[&receiver].clone());
                ensure!(ctx, r.is_err(), "C10/dkg-refresh/nonzero-constant-accepted", "distributed refresh accepted an ordinary (non-zero constant term) round-one package ({desc})");
            }
            // variant b: commitment with the constant entry stripped, shares from the non-zero-constant polynomial
            let mut coeffs = pkg.commitment().coefficients().to_vec();
            coeffs.remove(0);
            let stripped = round1::Package::new(VerifiableSecretSharingCommitment::new(coeffs), *pkg.proof_of_knowledge());
            let (mut r1, mut r2) = dkg_refresh_inputs(&honest, &receiver);
            r1.insert(victim, stripped);
            let share = poly_eval::<C>(&sec.coefficients(), receiver.to_scalar());
            r2.insert(victim, round2::Package::new(frost::keys::SigningShare::new(share)));
            if let Ok((sec2, _)) = refresh::refresh_dkg_part2(honest.r1_secret[&receiver].clone(), &r1) {
                let r = refresh::refresh_dkg_shares(&sec2, &r1, &r2, pk.clone(), kps[&receiver].clone());
                ensure!(ctx, r.is_err(), "C10/dkg-refresh/nonzero-constant-accepted", "distributed refresh accepted a contribution whose polynomial has a non-zero constant term ({desc})");
            }
        }
        // (ii) changed threshold: everybody runs the refresh with t2
        for t2 in [t.wrapping_sub(1), t + 1] {
            if t2 < 2 || t2 > m {
                continue;
            }
            ctx.eval(&format!("{},{},dkg,invalid,threshold,{}", shape.n, t, t2 as i32 - t as i32), true);
            ctx.label("invalid:changed-threshold");
            if let Ok(run2) = dkg_refresh_rounds::<C>(remaining, t2, rng.next(), "C10") {
                let (r1, r2) = dkg_refresh_inputs(&run2, &receiver);
                let r = refresh::refresh_dkg_shares(&run2.r2_secret[&receiver], &r1, &r2, pk.clone(), kps[&receiver].clone());
                ensure!(ctx, r.is_err(), "C10/dkg-refresh/changed-threshold-accepted", "distributed refresh with threshold {t2} accepted for key material of threshold {t} ({desc})");
            }
            // one participant alone uses another threshold
            if let Ok((_, pkg)) = refresh::refresh_dkg_part1::<C, _>(victim, m, t2, Tape::random(rng.next())) {
                let (mut r1, r2) = dkg_refresh_inputs(&honest, &receiver);
                r1.insert(victim, pkg);
                match refresh::refresh_dkg_part2(honest.r1_secret[&receiver].clone(), &r1) {
                    Err(_) => {}
                    Ok((sec2, _)) => {
                        let r = refresh::refresh_dkg_shares(&sec2, &r1, &r2, pk.clone(), kps[&receiver].clone());
                        ensure!(ctx, r.is_err(), "C10/dkg-refresh/changed-threshold-accepted", "distributed refresh accepted a peer contribution of threshold {t2} ({desc})");
                    }
                }
            }
        }
        // (ii') a peer's commitment with 65536 surplus entries (a length that matches only modulo 2^16)
        {
            ctx.eval(&format!("{},{},dkg,invalid,threshold,+65536", shape.n, t), true);
            ctx.label("invalid:changed-threshold-by-65536");
            let (mut r1, _) = dkg_refresh_inputs(&honest, &receiver);
            let pkg = r1[&victim].clone();
            let mut coeffs = pkg.commitment().coefficients().to_vec();
            let have = coeffs.len();
            coeffs.resize(have + 65536, frost::keys::CoefficientCommitment::new(gen_::<C>() * sc_rand_nonzero::<C>(rng.next())));
            r1.insert(victim, round1::Package::new(VerifiableSecretSharingCommitment::new(coeffs), *pkg.proof_of_knowledge()));
            let r = refresh::refresh_dkg_part2(honest.r1_secret[&receiver].clone(), &r1);
            ensure!(ctx, r.is_err(), "C10/dkg-refresh/changed-threshold-accepted", "refresh_dkg_part2 accepted a peer commitment of {} + 65536 entries ({desc})", have);
        }
        // (iii) unknown participant takes part in the refresh
        ctx.eval(&format!("{},{},dkg,invalid,unknown", shape.n, t), true);
        ctx.label("invalid:unknown-participant");
        let mut with_unknown = remaining.to_vec();
        with_unknown.push(unknown);
        if let Ok(run3) = dkg_refresh_rounds::<C>(&with_unknown, t, rng.next(), "C10") {
            let (r1, r2) = dkg_refresh_inputs(&run3, &receiver);
            let r = refresh::refresh_dkg_shares(&run3.r2_secret[&receiver], &r1, &r2, pk.clone(), kps[&receiver].clone());
            ensure!(ctx, r.is_err(), "C10/dkg-refresh/unknown-participant-accepted", "distributed refresh accepted a participant that is not in the public key package ({desc})");
        }
    }
    Ok(())
}
