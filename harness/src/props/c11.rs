//! C11 — share repair returns exactly the lost share and needs a threshold of helpers.

use crate::common::*;
use crate::engine::*;
use crate::suites::*;
use crate::tape::{Sm, Tape};
use crate::{dispatch, ensure};
use frost_core as frost;
use frost_core::keys::repairable::{repair_share_part1, repair_share_part2, repair_share_part3, Delta, Sigma};
use frost_core::keys::{KeyPackage, PublicKeyPackage};
use proptest::prelude::*;
use serde::{Deserialize, Serialize};
use std::collections::BTreeMap;

pub struct C11;

#[derive(Clone, Debug, Serialize, Deserialize)]
pub struct Case {
    pub shape: Shape,
    pub ids: IdSpec,
    /// 0 dealer, 1 DKG, 2 dealer + one dealer refresh, 3 DKG + one DKG refresh
    pub source: u8,
    pub helpers: SubsetSpec,
    /// repair a brand-new identifier instead of an existing non-helper
    pub new_id: bool,
    pub new_id_style: IdSpec,
    pub msg: MsgSpec,
    pub seed: u64,
}

impl Property for C11 {
    type Case = Case;
    fn id(&self) -> &'static str {
        "C11"
    }
    fn level(&self) -> &'static str {
        "exploration"
    }
    fn rule(&self) -> String {
        "case = (suite, n, t, identifier style, key source dealer/DKG/refreshed, helper set H of every size t..n-1 - for a new identifier t..n, n >= 2, t <= n - (prefix, suffix, \
         scattered), repaired identifier = EACH existing non-helper or a brand-new identifier of any style, seeds); the three repair parts \
         are run and compared with the harness's own Lagrange interpolation at the repaired identifier; the repaired participant then \
         signs with t-1 others; the refused inputs (|H| < t, duplicate helper, caller not in the helper list) are tried. One evaluation \
         per (case, repaired identifier) and per refused input. non-trivial = anything but (3-of-5, helpers {1,4,5}, repair 2); \
         distinct = distinct (suite, n, t, |H|, helper class, id style, source, existing/new) tuples"
            .into()
    }
    fn assumptions(&self) -> Vec<String> {
        vec!["the expected share is computed by the harness's own Lagrange routine over the holders' shares (field arithmetic of the curve crates trusted)".into()]
    }
    fn plan(&self, suite: SuiteId, tier: Tier) -> Vec<(u32, u32)> {
        let per = match (tier, suite.slow()) {
            (Tier::Quick, false) => 100,
            (Tier::Quick, true) => 15,
            (Tier::Thorough, false) => 3000,
            (Tier::Thorough, true) => 300,
        };
        // strata: source (4) x new/existing (2)
        (0..8).map(|s| (s, per)).collect()
    }
    fn chunk(&self, suite: SuiteId) -> u32 {
        if suite.slow() { 2 } else { 8 }
    }
    fn strategy(&self, suite: SuiteId, tier: Tier, stratum: u32) -> BoxedStrategy<Case> {
        let source = (stratum % 4) as u8;
        let new_id = stratum / 4 == 1;
        let dkg = source & 1 == 1;
        let nmax: u16 = match (tier, suite.slow(), dkg) {
            (Tier::Quick, false, false) => 10,
            (Tier::Quick, false, true) => 6,
            (Tier::Quick, true, false) => 6,
            (Tier::Quick, true, true) => 4,
            (Tier::Thorough, false, false) => 20,
            (Tier::Thorough, false, true) => 9,
            (Tier::Thorough, true, false) => 10,
            (Tier::Thorough, true, true) => 5,
        };
        (2u16..=nmax.max(3), any::<u16>(), idspec_strategy(None), subset_strategy(None), idspec_strategy(None), msg_short_strategy(), any::<u64>())
            .prop_map(move |(n, ti, ids, helpers, new_id_style, msg, seed)| {
                // existing participant: t <= n-1 so that a helper set of t..n-1 members exists next to the repaired one;
                // new identifier: every (n, t) with 2 <= t <= n, helper sets up to the whole group
                let (n, t) = if new_id { (n, 2 + idx(ti, (n - 1) as usize) as u16) } else { (n.max(3), 2 + idx(ti, (n.max(3) - 2) as usize) as u16) };
                Case { shape: Shape { n, t }, ids, source, helpers, new_id, new_id_style, msg, seed }
            })
            .boxed()
    }
    fn required_labels(&self, tier: Tier) -> Vec<(String, u64)> {
        let m = tier.pick(20, 200);
        vec![
            ("|H|>t".into(), m),
            ("|H|=t".into(), m),
            ("|H|=n".into(), m),
            ("t=n".into(), tier.pick(10, 100)),
            ("repair:new-identifier".into(), m),
            ("repair:existing".into(), m),
            ("src:dkg".into(), m),
            ("src:refreshed".into(), m),
            ("chain:repaired-helps-repair".into(), m),
            ("helpers-share-one-random-stream".into(), m),
            ("refused:too-few".into(), m),
            ("refused:duplicate".into(), m),
            ("refused:caller-missing".into(), m),
        ]
    }
    fn check(&self, suite: SuiteId, case: &Case, ctx: &mut Ctx) -> CheckResult {
        dispatch!(suite, check(case, ctx))
    }
}

fn check<C: Suite>(case: &Case, ctx: &mut Ctx) -> CheckResult {
    let shape = if case.new_id {
        let nn = case.shape.n.max(2);
        Shape { n: nn, t: case.shape.t.clamp(2, nn) }
    } else {
        let nn = case.shape.n.max(3);
        Shape { n: nn, t: case.shape.t.clamp(2, nn - 1) }
    };
    let (n, t) = (shape.n as usize, shape.t as usize);
    let dkg = case.source & 1 == 1;
    let refreshed = case.source & 2 == 2;
    // the ciphersuite crate's own keys::repairable::* give what the generic functions give (also on refused input)
    crate::wrappers::differential::<C>(ctx, "C11", crate::wrappers::Part::Repair, case.seed)?;
    let keys = make_keys::<C>(shape, case.ids, if dkg { KeySource::Dkg } else { KeySource::Dealer }, case.seed, "C11")?;
    let mut rng = Sm(case.seed ^ 0xc11);
    let (kps, pubkeys): (BTreeMap<Id<C>, KeyPackage<C>>, PublicKeyPackage<C>) = if refreshed {
        let d = "C11 preparatory refresh".to_string();
        crate::props::c10::do_refresh::<C>(ctx, &keys.kps, &keys.pubkeys, &keys.ids, shape.t, dkg, rng.next(), &d)?
    } else {
        (keys.kps.clone(), keys.pubkeys.clone())
    };
    let src_name = match (dkg, refreshed) {
        (false, false) => "dealer",
        (true, false) => "dkg",
        _ => "refreshed",
    };
    ctx.label(&format!("src:{src_name}"));
    let vk = *pubkeys.verifying_key();
    // helper set: t..n-1 members next to an existing repaired participant; for a NEW identifier up to all n
    // (one case in four: exactly the whole group helps)
    let hmax = if case.new_id { n } else { n - 1 };
    let hs = if case.new_id && case.seed & 3 == 0 { (0..n).collect() } else { make_subset(n, t, SubsetSpec { extra: case.helpers.extra, ..case.helpers }) };
    let hs: Vec<usize> = if hs.len() > hmax { hs[..hmax].to_vec() } else { hs };
    if hs.len() == n {
        ctx.label("|H|=n");
    }
    if t == n {
        ctx.label("t=n");
    }
    let helpers: Vec<Id<C>> = hs.iter().map(|i| keys.ids[*i]).collect();
    let non_helpers: Vec<Id<C>> = keys.ids.iter().filter(|i| !helpers.contains(i)).copied().collect();
    ctx.label(if helpers.len() > t { "|H|>t" } else { "|H|=t" });
    // helper list order as the caller passes it: shuffled
    let mut helper_list = helpers.clone();
    for i in (1..helper_list.len()).rev() {
        helper_list.swap(i, rng.below(i as u64 + 1) as usize);
    }
    let targets: Vec<Id<C>> = if case.new_id { vec![fresh_id::<C>(&keys.ids, case.new_id_style)] } else { non_helpers.clone() };
    let msg = case.msg.bytes();

    for target in &targets {
        let existing = keys.ids.contains(target);
        ctx.label(if existing { "repair:existing" } else { "repair:new-identifier" });
        let trivial = n == 5 && t == 3 && case.ids.style == IdStyle::Default && existing && hs == vec![0, 3, 4] && keys.ids.iter().position(|x| x == target) == Some(1);
        ctx.eval(&format!("{n},{t},{},{:?},{},{src_name},{existing}", helpers.len(), case.helpers.class, case.ids.style.name()), !trivial);
        let desc = format!("n={n} t={t} ids={} source={src_name} |H|={} repaired={} ({})", case.ids.style.name(), helpers.len(), id_hex::<C>(target), if existing { "existing" } else { "new" });
        let shared_stream = case.seed & 3 == 2;
        if shared_stream {
            ctx.label("helpers-share-one-random-stream");
        }
        // part 1 at every helper
        let xs: Vec<Sc<C>> = helpers.iter().map(|h| h.to_scalar()).collect();
        let mut deltas: BTreeMap<Id<C>, BTreeMap<Id<C>, Delta<C>>> = BTreeMap::new();
        for h in &helpers {
            // one case in four: every helper's random source yields the SAME stream (cloned RNG state, VM snapshot,
            // a test RNG): the blinding values of different helpers then coincide, which must not matter
            let tape_seed = if shared_stream { case.seed ^ 0x5a5a } else { rng.next() };
            let r = repair_share_part1::<C, _>(&helper_list, &kps[h], &mut Tape::random(tape_seed), *target);
            let d = match r {
                Ok(d) => d,
                Err(e) => return ctx.fail("C11/honest-repair-refused", format!("repair_share_part1 failed for a valid helper set: {e:?} ({desc})")),
            };
            ensure!(ctx, d.keys().copied().collect::<Vec<_>>() == helpers, "C11/delta-addressees", "part1 output is not addressed to exactly the helpers ({desc})");
            // each helper's outgoing values sum to its Lagrange-weighted share
            let mut sum = zero::<C>();
            for v in d.values() {
                sum = sum + v.to_scalar();
            }
            let zeta = lagrange::<C>(&xs, h.to_scalar(), Some(target.to_scalar()));
            ensure!(ctx, sum == zeta * kps[h].signing_share().to_scalar(), "C11/deltas-do-not-sum-to-weighted-share", "deltas of helper {} do not sum to zeta_i * s_i ({desc})", id_hex::<C>(h));
            deltas.insert(*h, d);
        }
        // part 2 at every helper
        let mut sigmas: Vec<Sigma<C>> = Vec::new();
        for j in &helpers {
            let recv: Vec<Delta<C>> = helpers.iter().map(|i| deltas[i][j]).collect();
            let sigma = repair_share_part2::<C>(&recv);
            // part 2 is the plain sum of what the helper received
            let mut sum = zero::<C>();
            for d in &recv {
                sum = sum + d.to_scalar();
            }
            ensure!(ctx, sigma.to_scalar() == sum, "C11/sigma-is-not-the-sum-of-deltas", "repair_share_part2 of helper {} is not the sum of the {} deltas it received (equal values among them: {}) ({desc})", id_hex::<C>(j), recv.len(), recv.iter().enumerate().any(|(a, x)| recv[..a].iter().any(|y| y.to_scalar() == x.to_scalar())));
            sigmas.push(sigma);
        }
        // part 3
        let kp = match repair_share_part3::<C>(&sigmas, *target, &pubkeys) {
            Ok(k) => k,
            Err(e) => return ctx.fail("C11/honest-repair-refused", format!("repair_share_part3 failed: {e:?} ({desc})")),
        };
        // expected: the group polynomial at the target, interpolated (own routine) through t holders — preferably not the helpers
        let mut basis: Vec<Id<C>> = keys.ids.iter().rev().filter(|i| *i != target).take(t).copied().collect();
        basis.sort();
        let bx: Vec<Sc<C>> = basis.iter().map(|h| h.to_scalar()).collect();
        let mut want = zero::<C>();
        for h in &basis {
            want = want + lagrange::<C>(&bx, h.to_scalar(), Some(target.to_scalar())) * kps[h].signing_share().to_scalar();
        }
        let got = kp.signing_share().to_scalar();
        ensure!(ctx, got == want, "C11/repaired-share-not-on-group-polynomial", "repaired signing share is not the group polynomial evaluated at the identifier ({desc})");
        if existing {
            ensure!(ctx, got == kps[target].signing_share().to_scalar(), "C11/repaired-share-differs-from-lost", "repaired signing share differs from the share that was lost ({desc})");
            ensure!(ctx, pubkeys.verifying_shares().get(target).map(|v| v.to_element()) == Some(kp.verifying_share().to_element()), "C11/verifying-share", "repaired verifying share differs from the public key package entry ({desc})");
        }
        ensure!(ctx, kp.verifying_share().to_element() == gen_::<C>() * got, "C11/verifying-share", "repaired verifying share != G * repaired signing share ({desc})");
        ensure!(ctx, *kp.verifying_key() == vk, "C11/group-key", "repaired key package holds another group key ({desc})");
        ensure!(ctx, *kp.min_signers() == shape.t, "C11/threshold", "repaired key package threshold {} expected {t} ({desc})", kp.min_signers());
        ensure!(ctx, kp.identifier() == target, "C11/identifier", "repaired key package has another identifier ({desc})");

        // the repaired participant signs with t-1 others
        let mut others: Vec<Id<C>> = keys.ids.iter().filter(|i| *i != target).copied().collect();
        for i in (1..others.len()).rev() {
            others.swap(i, rng.below(i as u64 + 1) as usize);
        }
        let mut signers: Vec<Id<C>> = others[..t - 1].to_vec();
        signers.push(*target);
        signers.sort();
        let mut kk = kps.clone();
        kk.insert(*target, kp.clone());
        let mut vs = pubkeys.verifying_shares().clone();
        vs.insert(*target, *kp.verifying_share());
        let pk2 = PublicKeyPackage::<C>::new(vs, vk, pubkeys.min_signers());
        let sess = run_session::<C>(&kk, &signers, &msg, rng.next(), "C11")?;
        match frost::aggregate(&sess.package, &sess.shares, &pk2) {
            Ok(sig) => {
                let b = sig_bytes::<C>(&sig)?;
                let iv = independent_verify::<C>(ctx, &vk, &msg, &b, false)?;
                ensure!(ctx, vk.verify(&msg, &sig).is_ok() && iv != Some(false), "C11/repaired-participant-cannot-sign", "signature with the repaired participant does not verify ({desc})");
            }
            Err(e) => ctx.fail("C11/repaired-participant-cannot-sign", format!("aggregate failed with the repaired participant: {e:?} ({desc})"))?,
        }

        // ---- chain: the repaired participant (holding only the repaired package) helps to repair ANOTHER participant
        if let Some(second) = keys.ids.iter().find(|i| *i != target).copied() {
            let mut h2: Vec<Id<C>> = vec![*target];
            for i in keys.ids.iter().rev() {
                if h2.len() < t && *i != second && *i != *target {
                    h2.push(*i);
                }
            }
            if h2.len() == t {
                ctx.eval(&format!("{n},{t},chain,{src_name},{existing}"), true);
                ctx.label("chain:repaired-helps-repair");
                let mut d2: BTreeMap<Id<C>, BTreeMap<Id<C>, Delta<C>>> = BTreeMap::new();
                let mut ok = true;
                for h in &h2 {
                    match repair_share_part1::<C, _>(&h2, &kk[h], &mut Tape::random(rng.next()), second) {
                        Ok(d) => {
                            d2.insert(*h, d);
                        }
                        Err(e) => {
                            ok = false;
                            ctx.fail("C11/honest-repair-refused", format!("second repair (the repaired participant helps): part1 failed: {e:?} ({desc})"))?;
                        }
                    }
                }
                if ok {
                    let mut sig2: Vec<Sigma<C>> = Vec::new();
                    for j in &h2 {
                        let recv: Vec<Delta<C>> = h2.iter().filter_map(|i| d2[i].get(j).copied()).collect();
                        sig2.push(repair_share_part2::<C>(&recv));
                    }
                    match repair_share_part3::<C>(&sig2, second, &pk2) {
                        Ok(kp2) => {
                            ensure!(ctx, kp2.signing_share().to_scalar() == kps[&second].signing_share().to_scalar(), "C11/repaired-share-differs-from-lost", "second repair, helped by the previously repaired participant, does not give back the lost share ({desc})");
                            ensure!(ctx, kp2.verifying_share().to_element() == kps[&second].verifying_share().to_element() && *kp2.verifying_key() == vk && *kp2.min_signers() == shape.t, "C11/verifying-share", "second repair: verifying share / group key / threshold differ ({desc})");
                        }
                        Err(e) => ctx.fail("C11/honest-repair-refused", format!("second repair (the repaired participant helps): part3 failed: {e:?} ({desc})"))?,
                    }
                }
            }
        }
    }

    // ---- refused inputs
    let target = targets[0];
    let caller = helpers[rng.below(helpers.len() as u64) as usize];
    {
        // fewer than t helpers (including the caller)
        ctx.eval(&format!("{n},{t},refused,too-few"), true);
        ctx.label("refused:too-few");
        let mut few: Vec<Id<C>> = vec![caller];
        for h in &helpers {
            if few.len() < t - 1 && *h != caller {
                few.push(*h);
            }
        }
        let r = repair_share_part1::<C, _>(&few, &kps[&caller], &mut Tape::random(rng.next()), target);
        ensure!(ctx, r.is_err(), "C11/too-few-helpers-accepted", "repair_share_part1 accepted {} < t={t} helpers", few.len());
    }
    {
        // duplicate helper: t distinct helpers + one duplicate, and t-1 distinct + a duplicate (length t)
        ctx.eval(&format!("{n},{t},refused,duplicate"), true);
        ctx.label("refused:duplicate");
        let mut dup = helper_list.clone();
        let d = dup[rng.below(dup.len() as u64) as usize];
        dup.insert(rng.below(dup.len() as u64 + 1) as usize, d);
        let r = repair_share_part1::<C, _>(&dup, &kps[&caller], &mut Tape::random(rng.next()), target);
        ensure!(ctx, r.is_err(), "C11/duplicate-helper-accepted", "repair_share_part1 accepted a helper list with a duplicate ({} entries, {} distinct)", dup.len(), helpers.len());
        let mut dup2: Vec<Id<C>> = vec![caller];
        for h in &helpers {
            if dup2.len() < t - 1 && *h != caller {
                dup2.push(*h);
            }
        }
        let last = *dup2.last().unwrap();
        dup2.push(last);
        let r = repair_share_part1::<C, _>(&dup2, &kps[&caller], &mut Tape::random(rng.next()), target);
        ensure!(ctx, r.is_err(), "C11/duplicate-helper-accepted", "repair_share_part1 accepted t entries of which only t-1 are distinct");
    }
    {
        // the calling helper is not in the list
        ctx.eval(&format!("{n},{t},refused,caller-missing"), true);
        ctx.label("refused:caller-missing");
        if let Some(outsider) = non_helpers.iter().find(|x| **x != target) {
            let r = repair_share_part1::<C, _>(&helper_list, &kps[outsider], &mut Tape::random(rng.next()), target);
            ensure!(ctx, r.is_err(), "C11/caller-not-in-helper-list-accepted", "repair_share_part1 accepted a caller that is not in the helper list");
        }
        let mut l2 = helper_list.clone();
        l2.retain(|x| *x != caller);
        if let Some(sub) = non_helpers.iter().find(|x| **x != target) {
            l2.push(*sub);
        }
        if l2.len() >= t {
            let r = repair_share_part1::<C, _>(&l2, &kps[&caller], &mut Tape::random(rng.next()), target);
            ensure!(ctx, r.is_err(), "C11/caller-not-in-helper-list-accepted", "repair_share_part1 accepted a helper list that omits the calling helper");
        }
    }
    Ok(())
}
