//! C09 — no delivery history of keygen messages lets honest parties silently diverge.
//! Small scope, exhaustive: n in {3,4}, all t, two concurrent runs.

use crate::common::*;
use crate::engine::*;
use crate::props::c07::{consistent, expected_from_run};
use crate::suites::*;
use crate::tape::Sm;
use crate::{dispatch, ensure};
use frost_core as frost;
use frost_core::keys::dkg::{self, round1, round2};
use proptest::prelude::*;
use serde::{Deserialize, Serialize};
use std::collections::BTreeMap;

pub struct C09;

#[derive(Clone, Debug, Serialize, Deserialize)]
pub enum Case {
    /// every history of one participant (index `part` in sorted identifier order) whose own run is A or B
    /// `t_b`: threshold of the concurrent run B (run A uses shape.t); the two runs may use different thresholds
    Local { shape: Shape, t_b: u16, ids: IdSpec, seed: u64, part: u8, own_b: bool, sampled: u32 },
    /// all 2^n common round-one sets run jointly
    Joint { shape: Shape, t_b: u16, ids: IdSpec, seed: u64 },
}

fn shapes(n: u16) -> Vec<Shape> {
    (2..=n).map(|t| Shape { n, t }).collect()
}

/// stratum encoding (decimal fields): kind(1) n(2) t(2) t_b(2) part(2) own(1)
fn enc(kind: u32, s: Shape, t_b: u16, part: u32, own: u32) -> u32 {
    kind * 1_000_000_000 + s.n as u32 * 10_000_000 + s.t as u32 * 100_000 + t_b as u32 * 1000 + part * 10 + own
}

impl Property for C09 {
    type Case = Case;
    fn id(&self) -> &'static str {
        "C09"
    }
    fn level(&self) -> &'static str {
        "exploration"
    }
    fn rule(&self) -> String {
        "two concurrent honest DKG runs A, B of the same identifiers. Enumerated COMPLETELY per (suite, n, t of run A, t of run B, participant, own run): every \
         filling of the participant's n-1 round-one slots with {A, B, absent} and, where part2 succeeds, every filling of its n-1 round-two \
         slots with {(run, addressee != sender)} or absent; additionally every round-one filling with the participant's OWN slot \
         filled by its own contribution to run A or B (and its own round-two share when part2 emits one); then all 2^n common round-one sets jointly. Quick: n=3 all t for all six \
         suites, n=4 all t for the five fast suites; additionally sampled histories for n = 10 and 12 (first and last participant: perfect delivery, every round-two slot with each \
         kind of single deviation, random fillings); thorough: n=4 for all six suites plus sampled histories for n in {5,6}. One \
         evaluation per part2/part3 execution. non-trivial = every history other than perfect delivery of one run; distinct = distinct \
         (suite, n, t, participant, own run, round-one filling, round-two filling) tuples"
            .into()
    }
    fn assumptions(&self) -> Vec<String> {
        vec![
            "exhaustive only in the stated scope (n <= 4, two runs, one transcript pair per (suite, n, t) and seed); beyond it sampled".into(),
            "the joint space factorises because a participant's step depends only on its own inputs".into(),
            "acceptance of a consistent mixed-run delivery is allowed but not required; perfect delivery of a single run must succeed".into(),
        ]
    }
    fn exhaustive(&self, _tier: Tier) -> bool {
        true
    }
    fn plan(&self, suite: SuiteId, tier: Tier) -> Vec<(u32, u32)> {
        let mut v = Vec::new();
        let mut ns = vec![3u16];
        let n4 = match tier {
            Tier::Quick => !suite.slow(),
            Tier::Thorough => true,
        };
        if n4 {
            ns.push(4);
        }
        for n in ns {
            for s in shapes(n) {
                // every threshold of the concurrent run B (Ed448 quick: equal and one different threshold)
                for t_b in 2..=n {
                    if suite.slow() && tier == Tier::Quick && t_b != s.t && t_b != (s.t % (n - 1)) + 2 {
                        continue;
                    }
                    for part in 0..n as u32 {
                        for own in 0..2 {
                            v.push((enc(0, s, t_b, part, own), 1));
                        }
                    }
                    v.push((enc(1, s, t_b, 0, 0), 1));
                }
            }
        }
        // larger groups, sampled: perfect delivery plus single deviations in every round-two slot
        if !(suite.slow() && tier == Tier::Quick) {
            for (n, t) in [(10u16, 2u16), (12, 3)] {
                if suite.slow() && n > 10 {
                    continue;
                }
                let s = Shape { n, t };
                for part in [0u32, n as u32 - 1] {
                    v.push((enc(2, s, t, part, 0), 1));
                }
            }
        }
        if tier == Tier::Thorough {
            for n in [5u16, 6] {
                for s in shapes(n) {
                    if suite.slow() && s.t != 3 {
                        continue;
                    }
                    for t_b in [s.t, (s.t % (n - 1)) + 2] {
                        v.push((enc(2, s, t_b, (s.t as u32) % n as u32, (s.t as u32) & 1), 1));
                        v.push((enc(1, s, t_b, 0, 0), 1));
                    }
                }
            }
        }
        v
    }
    fn chunk(&self, _suite: SuiteId) -> u32 {
        1
    }
    fn max_shrink_iters(&self) -> u32 {
        8
    }
    fn strategy(&self, _suite: SuiteId, _tier: Tier, stratum: u32) -> BoxedStrategy<Case> {
        let kind = stratum / 1_000_000_000;
        let shape = Shape { n: ((stratum / 10_000_000) % 100) as u16, t: ((stratum / 100_000) % 100) as u16 };
        let t_b = ((stratum / 1000) % 100) as u16;
        let part = ((stratum / 10) % 100) as u8;
        let own_b = stratum % 10 == 1;
        // identifier style: mixed non-contiguous identifiers, the seed varies with VERIF_SEED through proptest
        (idspec_strategy(None), any::<u64>())
            .prop_map(move |(ids, seed)| match kind {
                0 => Case::Local { shape, t_b, ids, seed, part, own_b, sampled: 0 },
                2 => Case::Local { shape, t_b, ids, seed, part, own_b, sampled: 400 },
                _ => Case::Joint { shape, t_b, ids, seed },
            })
            .boxed()
    }
    fn required_labels(&self, tier: Tier) -> Vec<(String, u64)> {
        let m = tier.pick(12, 60);
        vec![
            ("part3:accepted-pure-run".into(), m),
            ("part3:accepted-mixed-run".into(), m),
            ("part3:rejected".into(), m * 20),
            ("part2:rejected-absent".into(), m),
            ("joint:all-complete".into(), m),
            ("n=4".into(), 20),
            ("n>=10".into(), 1),
            ("runs-with-different-thresholds".into(), m),
            ("runs-with-equal-thresholds".into(), m),
            ("own-slot:part2-rejected".into(), m),
        ]
    }
    fn check(&self, suite: SuiteId, case: &Case, ctx: &mut Ctx) -> CheckResult {
        dispatch!(suite, check(case, ctx))
    }
}

struct Runs<C: Suite> {
    idv: Vec<Id<C>>,
    runs: [DkgRun<C>; 2],
    /// thresholds of run A and run B
    ts: [u16; 2],
}

fn make_runs<C: Suite>(shape: Shape, t_b: u16, ids: IdSpec, seed: u64) -> Result<Runs<C>, Failure> {
    let mut idv = make_ids::<C>(ids, shape.n as usize);
    idv.sort();
    let a = dkg_rounds::<C>(shape, &idv, seed, "C09")?;
    let b = dkg_rounds::<C>(Shape { n: shape.n, t: t_b.clamp(2, shape.n) }, &idv, seed ^ 0xbbbb_0000_bbbb, "C09")?;
    Ok(Runs { idv, runs: [a, b], ts: [shape.t, t_b.clamp(2, shape.n)] })
}

fn check<C: Suite>(case: &Case, ctx: &mut Ctx) -> CheckResult {
    match case {
        Case::Local { shape, t_b, ids, seed, part, own_b, sampled } => local::<C>(*shape, *t_b, *ids, *seed, *part as usize, *own_b as usize, *sampled, ctx),
        Case::Joint { shape, t_b, ids, seed } => joint::<C>(*shape, *t_b, *ids, *seed, ctx),
    }
}

const ABSENT: usize = 2;
/// round-two codes SINGLE_BASE + 4*slot + kind: the matched filling with one deterministic deviation
const SINGLE_BASE: usize = usize::MAX / 2;

fn local<C: Suite>(shape: Shape, t_b: u16, ids: IdSpec, seed: u64, part: usize, own: usize, sampled: u32, ctx: &mut Ctx) -> CheckResult {
    let shape = Shape { n: shape.n.clamp(2, 13), t: shape.t.clamp(2, shape.n.clamp(2, 13)) };
    let n = shape.n as usize;
    let part = part % n;
    if n >= 10 {
        ctx.label("n>=10");
    }
    let rs = make_runs::<C>(shape, t_b, ids, seed)?;
    ctx.label(if rs.ts[0] == rs.ts[1] { "runs-with-equal-thresholds" } else { "runs-with-different-thresholds" });
    let me = rs.idv[part];
    let peers: Vec<Id<C>> = rs.idv.iter().filter(|i| **i != me).copied().collect();
    let m = peers.len();
    if n == 4 {
        ctx.label("n=4");
    }
    let mut rng = Sm(seed ^ 0xc09);
    // round-two options per slot: (run, addressee) with addressee != sender, or absent
    let r2_options = |sender: &Id<C>| -> Vec<Option<(usize, Id<C>)>> {
        let mut v: Vec<Option<(usize, Id<C>)>> = Vec::new();
        for run in 0..2 {
            for addr in rs.idv.iter().filter(|a| *a != sender) {
                v.push(Some((run, *addr)));
            }
        }
        v.push(None);
        v
    };
    let opts: Vec<Vec<Option<(usize, Id<C>)>>> = peers.iter().map(|s| r2_options(s)).collect();
    let n_r1 = 3usize.pow(m as u32);
    let r1_iter: Vec<usize> = if sampled == 0 { (0..n_r1).collect() } else { (0..12).map(|i| if i == 0 { 0 } else { rng.below(n_r1 as u64) as usize }).collect() };
    for code in r1_iter {
        // decode the round-one filling
        let mut f1 = vec![0usize; m];
        let mut c = code;
        for slot in f1.iter_mut() {
            *slot = c % 3;
            c /= 3;
        }
        // sampled mode: bias towards fillings without absent slots
        if sampled != 0 && code != 0 && rng.below(4) != 0 {
            for slot in f1.iter_mut() {
                if *slot == ABSENT {
                    *slot = rng.below(2) as usize;
                }
            }
        }
        let mut r1m: BTreeMap<Id<C>, round1::Package<C>> = BTreeMap::new();
        for (k, s) in peers.iter().enumerate() {
            if f1[k] != ABSENT {
                r1m.insert(*s, rs.runs[f1[k]].r1_pkg[s].clone());
            }
        }
        let any_absent = f1.contains(&ABSENT);
        let pure1 = f1.iter().all(|x| *x == own);
        let p2 = dkg::part2(rs.runs[own].r1_secret[&me].clone(), &r1m);
        ctx.eval(&format!("{},{},{},{part},{own},r1,{:?}", shape.n, rs.ts[0], rs.ts[1], f1), !pure1);
        let desc1 = format!("n={} t(A)={} t(B)={} participant#{part} own run {} round-one slots {:?} (0=A 1=B 2=absent)", shape.n, rs.ts[0], rs.ts[1], ["A", "B"][own], f1);
        let r2sec = match p2 {
            Ok((sec, out)) => {
                ensure!(ctx, !any_absent, "C09/part2-accepts-missing-contribution", "part2 succeeded with an absent round-one contribution ({desc1})");
                let _ = &out;
                sec
            }
            Err(e) => {
                if any_absent {
                    ctx.label("part2:rejected-absent");
                } else if pure1 {
                    ctx.fail("C09/perfect-delivery-rejected", format!("part2 failed on perfect delivery of its own run: {e:?} ({desc1})"))?;
                } else {
                    ctx.label("part2:rejected-mixed");
                }
                continue;
            }
        };
        // expected key material for this round-one set: depends on own run and f1
        let total: usize = opts.iter().map(|o| o.len()).product();
        let r2_codes: Vec<usize> = if sampled == 0 {
            (0..total).collect()
        } else {
            // the matched filling first, then random ones and single deviations from the matched one
            let mut v = vec![usize::MAX];
            for _ in 0..sampled / 8 {
                v.push(rng.below(total as u64) as usize);
            }
            for _ in 0..sampled / 8 {
                v.push(usize::MAX - 1 - rng.below(1 << 20) as usize);
            }
            // every slot once with each kind of single deviation: other run to me, same run to another addressee, absent
            for k in 0..m {
                for kind in 0..3usize {
                    v.push(SINGLE_BASE + k * 4 + kind);
                }
            }
            v
        };
        for code2 in r2_codes {
            // decode
            let matched: Vec<usize> = peers.iter().enumerate().map(|(k, _)| opts[k].iter().position(|o| *o == Some((f1[k], me))).unwrap()).collect();
            let mut f2 = vec![0usize; m];
            if (SINGLE_BASE..SINGLE_BASE + 4 * 64).contains(&code2) {
                let k = (code2 - SINGLE_BASE) / 4;
                let kind = (code2 - SINGLE_BASE) % 4;
                f2 = matched.clone();
                let want: Option<(usize, Id<C>)> = match kind {
                    0 => Some((1 - f1[k], me)),
                    1 => Some((f1[k], *rs.idv.iter().find(|a| **a != peers[k] && **a != me).unwrap_or(&me))),
                    _ => None,
                };
                f2[k] = opts[k].iter().position(|o| *o == want).unwrap_or(matched[k]);
            } else if code2 == usize::MAX {
                f2 = matched.clone();
            } else if code2 > usize::MAX - (1 << 21) {
                // one slot deviates from the matched filling
                f2 = matched.clone();
                let mut r = Sm(code2 as u64);
                let k = r.below(m as u64) as usize;
                f2[k] = r.below(opts[k].len() as u64) as usize;
            } else {
                let mut c = code2;
                for (k, slot) in f2.iter_mut().enumerate() {
                    *slot = c % opts[k].len();
                    c /= opts[k].len();
                }
            }
            let mut r2m: BTreeMap<Id<C>, round2::Package<C>> = BTreeMap::new();
            let mut model_ok = true;
            let mut pure = pure1;
            for (k, s) in peers.iter().enumerate() {
                match opts[k][f2[k]] {
                    None => model_ok = false,
                    Some((run, addr)) => {
                        if run != f1[k] || addr != me {
                            model_ok = false;
                        }
                        if run != own {
                            pure = false;
                        }
                        r2m.insert(*s, rs.runs[run].r2_pkg[s][&addr].clone());
                    }
                }
            }
            ctx.eval(&format!("{},{},{},{part},{own},{:?},{:?}", shape.n, rs.ts[0], rs.ts[1], f1, f2), !(pure && model_ok));
            let p3 = dkg::part3(&r2sec, &r1m, &r2m);
            match p3 {
                Ok((kp, pk)) => {
                    let desc = format!("{desc1}; round-two slots {:?}", f2.iter().enumerate().map(|(k, i)| opts[k][*i].map(|(r, a)| format!("{}->#{}", ["A", "B"][r], rs.idv.iter().position(|x| *x == a).unwrap())).unwrap_or("absent".into())).collect::<Vec<_>>());
                    ensure!(ctx, model_ok, "C09/misdelivered-share-accepted", "part3 accepted a round-two share that was not addressed to this recipient or does not belong to the round-one contribution filed for its sender ({desc})");
                    consistent::<C>(ctx, &kp, &pk, rs.ts[own], n, "C09", &desc)?;
                    ensure!(ctx, *kp.identifier() == me, "C09/identifier", "key package carries another identifier ({desc})");
                    // the key material is the one determined by the filed round-one set
                    let mut virt = DkgRun { r1_secret: BTreeMap::new(), r1_pkg: BTreeMap::new(), r2_secret: BTreeMap::new(), r2_pkg: BTreeMap::new() };
                    virt.r1_pkg.insert(me, rs.runs[own].r1_pkg[&me].clone());
                    virt.r1_secret.insert(me, rs.runs[own].r1_secret[&me].clone());
                    for (k, s) in peers.iter().enumerate() {
                        virt.r1_pkg.insert(*s, rs.runs[f1[k]].r1_pkg[s].clone());
                        virt.r1_secret.insert(*s, rs.runs[f1[k]].r1_secret[s].clone());
                    }
                    let exp = expected_from_run::<C>(ctx, &virt, &rs.idv)?;
                    ensure!(ctx, pk.verifying_key().to_element() == exp.group_key, "C09/group-key-not-from-filed-round-one", "group key is not determined by the filed round-one contributions ({desc})");
                    ensure!(ctx, kp.signing_share().to_scalar() == exp.shares[&me], "C09/share-not-from-filed-round-one", "signing share is not the sum of the filed senders' polynomials ({desc})");
                    ctx.label(if pure { "part3:accepted-pure-run" } else { "part3:accepted-mixed-run" });
                }
                Err(e) => {
                    if model_ok && pure {
                        ctx.fail("C09/perfect-delivery-rejected", format!("part3 failed on perfect delivery of one run: {e:?} ({desc1})"))?;
                    }
                    ctx.label("part3:rejected");
                }
            }
        }
    }
    // ---- the participant's OWN slot is a sender slot too: the network hands it back what it produced itself
    // (for its own run or for the concurrent one) next to every filling of the peers' slots. Each step fails or
    // yields internally consistent key material determined by the filed contributions.
    if sampled == 0 {
        for own_slot in 0..2usize {
            for code in 0..n_r1 {
                let mut f1 = vec![0usize; m];
                let mut c = code;
                for slot in f1.iter_mut() {
                    *slot = c % 3;
                    c /= 3;
                }
                let mut r1m: BTreeMap<Id<C>, round1::Package<C>> = BTreeMap::new();
                for (k, s) in peers.iter().enumerate() {
                    if f1[k] != ABSENT {
                        r1m.insert(*s, rs.runs[f1[k]].r1_pkg[s].clone());
                    }
                }
                r1m.insert(me, rs.runs[own_slot].r1_pkg[&me].clone());
                ctx.eval(&format!("{},{},{},{part},{own},r1-own{own_slot},{:?}", shape.n, rs.ts[0], rs.ts[1], f1), true);
                let desc1 = format!(
                    "n={} t(A)={} t(B)={} participant#{part} own run {} round-one slots {:?} (0=A 1=B 2=absent) plus its OWN slot filled with its contribution to run {}",
                    shape.n,
                    rs.ts[0],
                    rs.ts[1],
                    ["A", "B"][own],
                    f1,
                    ["A", "B"][own_slot]
                );
                let (sec, out) = match dkg::part2(rs.runs[own].r1_secret[&me].clone(), &r1m) {
                    Ok(x) => x,
                    Err(_) => {
                        ctx.label("own-slot:part2-rejected");
                        continue;
                    }
                };
                ctx.label("own-slot:part2-accepted");
                ensure!(ctx, !f1.contains(&ABSENT), "C09/part2-accepts-missing-contribution", "part2 succeeded with an absent round-one contribution ({desc1})");
                // round two: matched shares of the peers; own slot absent, or the share part2 produced for itself (if any)
                let mut r2m: BTreeMap<Id<C>, round2::Package<C>> = BTreeMap::new();
                for (k, s) in peers.iter().enumerate() {
                    r2m.insert(*s, rs.runs[f1[k]].r2_pkg[s][&me].clone());
                }
                let mut variants = vec![r2m.clone()];
                if let Some(p) = out.get(&me) {
                    let mut v = r2m.clone();
                    v.insert(me, p.clone());
                    variants.push(v);
                }
                for r2v in variants {
                    ctx.eval(&format!("{},{},{},{part},{own},r2-own{own_slot},{:?},{}", shape.n, rs.ts[0], rs.ts[1], f1, r2v.len()), true);
                    if let Ok((kp, pk)) = dkg::part3(&sec, &r1m, &r2v) {
                        ctx.label("own-slot:part3-accepted");
                        consistent::<C>(ctx, &kp, &pk, rs.ts[own], n, "C09", &desc1)?;
                        ensure!(ctx, *kp.identifier() == me, "C09/identifier", "key package carries another identifier ({desc1})");
                        // whatever it accepted, the key must be the one determined by the n filed contributions
                        // (its own secret polynomial counted once)
                        let mut virt = DkgRun { r1_secret: BTreeMap::new(), r1_pkg: BTreeMap::new(), r2_secret: BTreeMap::new(), r2_pkg: BTreeMap::new() };
                        virt.r1_pkg.insert(me, rs.runs[own].r1_pkg[&me].clone());
                        virt.r1_secret.insert(me, rs.runs[own].r1_secret[&me].clone());
                        for (k, s) in peers.iter().enumerate() {
                            virt.r1_pkg.insert(*s, rs.runs[f1[k]].r1_pkg[s].clone());
                            virt.r1_secret.insert(*s, rs.runs[f1[k]].r1_secret[s].clone());
                        }
                        let exp = expected_from_run::<C>(ctx, &virt, &rs.idv)?;
                        ensure!(ctx, pk.verifying_key().to_element() == exp.group_key, "C09/group-key-not-from-filed-round-one", "group key is not determined by the filed round-one contributions ({desc1})");
                        ensure!(ctx, kp.signing_share().to_scalar() == exp.shares[&me], "C09/share-not-from-filed-round-one", "signing share is not the sum of the filed senders' polynomials ({desc1})");
                    } else {
                        ctx.label("own-slot:part3-rejected");
                    }
                }
            }
        }
    }
    Ok(())
}

fn joint<C: Suite>(shape: Shape, t_b: u16, ids: IdSpec, seed: u64, ctx: &mut Ctx) -> CheckResult {
    let shape = Shape { n: shape.n.clamp(2, 13), t: shape.t.clamp(2, shape.n.clamp(2, 13)) };
    let n = shape.n as usize;
    let rs = make_runs::<C>(shape, t_b, ids, seed)?;
    let mut rng = Sm(seed ^ 0x901);
    for mask in 0u32..(1 << n) {
        let run_of = |i: usize| ((mask >> i) & 1) as usize;
        let pure = mask == 0 || mask == (1 << n) - 1;
        ctx.eval(&format!("{},{},{},joint,{mask:b}", shape.n, rs.ts[0], rs.ts[1]), !pure);
        let desc = format!("n={} t(A)={} t(B)={} common round-one set {:0width$b} (bit i = run of participant i; 0=A 1=B)", shape.n, rs.ts[0], rs.ts[1], mask, width = n);
        let mut kps = BTreeMap::new();
        let mut pks: Vec<(Vec<u8>, frost::keys::PublicKeyPackage<C>)> = Vec::new();
        let mut all = true;
        for (i, me) in rs.idv.iter().enumerate() {
            let mut r1m = BTreeMap::new();
            let mut r2m = BTreeMap::new();
            for (j, s) in rs.idv.iter().enumerate() {
                if j == i {
                    continue;
                }
                r1m.insert(*s, rs.runs[run_of(j)].r1_pkg[s].clone());
                r2m.insert(*s, rs.runs[run_of(j)].r2_pkg[s][me].clone());
            }
            let own = run_of(i);
            let r = dkg::part2(rs.runs[own].r1_secret[me].clone(), &r1m).and_then(|(sec, _)| dkg::part3(&sec, &r1m, &r2m));
            match r {
                Ok((kp, pk)) => {
                    consistent::<C>(ctx, &kp, &pk, rs.ts[own], n, "C09", &desc)?;
                    pks.push((pk.serialize().map_err(|e| inconclusive(format!("{e:?}")))?, pk));
                    kps.insert(*me, kp);
                }
                Err(e) => {
                    all = false;
                    if pure {
                        ctx.fail("C09/perfect-delivery-rejected", format!("participant #{i} failed on perfect delivery: {e:?} ({desc})"))?;
                    }
                }
            }
        }
        if !all {
            ctx.label("joint:someone-aborted");
            continue;
        }
        ctx.label("joint:all-complete");
        for (b, _) in &pks[1..] {
            ensure!(ctx, *b == pks[0].0, "C09/silent-divergence", "all participants completed on one common round-one set but hold different public key packages ({desc})");
        }
        let pk = &pks[0].1;
        // all completed on one common set: they agree on the threshold recorded in the public package
        let t_common = pk.min_signers().unwrap_or(shape.t) as usize;
        let sub = make_subset(n, t_common.clamp(2, n), SubsetSpec { class: SubsetClass::Scattered, extra: 0, seed: rng.next() });
        let signers: Vec<Id<C>> = sub.iter().map(|i| rs.idv[*i]).collect();
        let msg = rng.bytes(9);
        let sess = run_session::<C>(&kps, &signers, &msg, rng.next(), "C09")?;
        match frost::aggregate(&sess.package, &sess.shares, pk) {
            Ok(sig) => {
                let b = sig_bytes::<C>(&sig)?;
                let iv = independent_verify::<C>(ctx, pk.verifying_key(), &msg, &b, false)?;
                ensure!(ctx, pk.verifying_key().verify(&msg, &sig).is_ok() && iv != Some(false), "C09/cannot-sign-together", "joint signature does not verify ({desc})");
            }
            Err(e) => ctx.fail("C09/cannot-sign-together", format!("participants that completed on a common round-one set cannot sign together: {e:?} ({desc})"))?,
        }
    }
    Ok(())
}
