//! C05 — a signature share is bound to one message, one commitment set and one signer set.

use crate::common::*;
use crate::engine::*;
use crate::props::c04::{share_from, share_scalar};
use crate::suites::*;
use crate::tape::{Sm, Tape};
use crate::{dispatch, ensure};
use frost_core as frost;
use frost_core::keys::PublicKeyPackage;
use frost_core::round1::{NonceCommitment, SigningCommitments};
use frost_core::round2::SignatureShare;
use frost_core::{Error, SigningPackage};
use proptest::prelude::*;
use serde::{Deserialize, Serialize};
use std::collections::BTreeMap;

pub struct C05;

#[derive(Clone, Debug, Serialize, Deserialize)]
pub struct Case {
    pub shape: Shape,
    pub ids: IdSpec,
    pub source: KeySource,
    /// |S| is forced by the stratum (2..=4, 5 in the thorough tier)
    pub s_size: u16,
    pub subset_seed: u64,
    pub msg_a: MsgSpec,
    pub msg_b: MsgSpec,
    pub same_message: bool,
    pub seed: u64,
}

impl Property for C05 {
    type Case = Case;
    fn id(&self) -> &'static str {
        "C05"
    }
    fn level(&self) -> &'static str {
        "fault_enumeration"
    }
    fn rule(&self) -> String {
        "per generated pair of concurrent sessions A, B of the same signers over the same key (|S| in 2..4, 5 in thorough; equal or \
         different messages): EVERY filling of the package's commitment slots with A's or B's commitments x message of A or B x EVERY \
         filling of the share slots with A's or B's shares is aggregated and every A-share is share-verified against every such package; \
         then every single-field substitution of package A (message flip/truncate/extend, each signer's hiding/binding commitment \
         replaced by B's, another signer's, swapped, random; signer dropped/added/replaced; group key; claimed identifier; the \
         compensated substitution (D+rho*T, E-T); identity commitment) and the signer-side refusals. One evaluation per slot filling / \
         substitution. non-trivial = everything but the unmodified package A; distinct = distinct (suite, n, t, |S|, filling or \
         substitution descriptor) tuples"
            .into()
    }
    fn assumptions(&self) -> Vec<String> {
        vec!["a share of session A being valid for a different package by chance has negligible probability and is not expected".into()]
    }
    fn plan(&self, suite: SuiteId, tier: Tier) -> Vec<(u32, u32)> {
        // stratum = |S|
        match (tier, suite.slow()) {
            (Tier::Quick, false) => vec![(2, 20), (3, 20), (4, 12)],
            (Tier::Quick, true) => vec![(2, 4), (3, 3), (4, 2)],
            (Tier::Thorough, false) => vec![(2, 150), (3, 150), (4, 100), (5, 30)],
            (Tier::Thorough, true) => vec![(2, 30), (3, 30), (4, 16), (5, 4)],
        }
    }
    fn chunk(&self, suite: SuiteId) -> u32 {
        if suite.slow() { 1 } else { 3 }
    }
    fn strategy(&self, suite: SuiteId, _tier: Tier, stratum: u32) -> BoxedStrategy<Case> {
        let s_size = stratum as u16;
        let extra_max: u16 = if suite.slow() { 1 } else { 3 };
        let src = prop_oneof![3 => Just(KeySource::Dealer), 1 => Just(KeySource::Dkg), 1 => Just(KeySource::DealerRefreshed), 1 => Just(KeySource::Repaired), 1 => Just(KeySource::History(0))];
        (0..=extra_max, any::<u16>(), idspec_strategy(None), src, any::<u64>(), msg_short_strategy(), msg_short_strategy(), any::<bool>(), any::<u64>())
            .prop_map(move |(extra, ti, ids, source, subset_seed, msg_a, msg_b, same_message, seed)| {
                let n = s_size + extra;
                let t = 2 + idx(ti, (s_size - 1) as usize) as u16; // 2..=|S|
                Case { shape: Shape { n, t }, ids, source, s_size, subset_seed, msg_a, msg_b, same_message, seed }
            })
            .boxed()
    }
    fn required_labels(&self, tier: Tier) -> Vec<(String, u64)> {
        let m = tier.pick(10, 100);
        vec![
            ("same-message".into(), m),
            ("different-message".into(), m),
            ("|S|=4".into(), m),
            ("sub:compensated".into(), m),
            ("sub:identity-commitment".into(), m),
            ("sub:signer-added".into(), m / 2),
            ("sub:signer-dropped".into(), m / 2),
            ("sub:share-refiled-under-non-participant".into(), m / 2),
            ("signer-side:missing".into(), m),
            ("signer-side:incorrect".into(), m),
            ("fill:all-B-is-valid-session".into(), m),
        ]
    }
    fn check(&self, suite: SuiteId, case: &Case, ctx: &mut Ctx) -> CheckResult {
        dispatch!(suite, check(case, ctx))
    }
}

fn agg_ok<C: Suite>(package: &SigningPackage<C>, shares: &BTreeMap<Id<C>, SignatureShare<C>>, pubkeys: &PublicKeyPackage<C>) -> Result<frost::Signature<C>, Error<C>> {
    frost::aggregate(package, shares, pubkeys)
}

fn check<C: Suite>(case: &Case, ctx: &mut Ctx) -> CheckResult {
    let s_size = case.s_size.max(2);
    let shape = Shape { n: case.shape.n.max(s_size), t: case.shape.t.clamp(2, s_size) };
    let keys = make_keys::<C>(shape, case.ids, case.source, case.seed, "C05")?;
    let sub = make_subset(
        shape.n as usize,
        shape.t as usize,
        SubsetSpec { class: SubsetClass::Scattered, extra: extra_for((s_size - shape.t) as usize, (shape.n - shape.t + 1) as usize), seed: case.subset_seed },
    );
    let signers: Vec<Id<C>> = sub.iter().map(|i| keys.ids[*i]).collect();
    let m = signers.len();
    let msg_a = case.msg_a.bytes();
    let mut msg_b = if case.same_message { msg_a.clone() } else { case.msg_b.bytes() };
    if !case.same_message && msg_b == msg_a {
        msg_b.push(0x42);
    }
    ctx.label(if msg_a == msg_b { "same-message" } else { "different-message" });
    ctx.label(&format!("|S|={m}"));
    let vk = *keys.pubkeys.verifying_key();
    let a = run_session::<C>(&keys.kps, &signers, &msg_a, case.seed ^ 0xa, "C05")?;
    let b = run_session::<C>(&keys.kps, &signers, &msg_b, case.seed ^ 0xb, "C05")?;
    let base = format!("{},{},{}", shape.n, shape.t, m);
    let mut rng = Sm(case.seed ^ 0xc05);

    // ---- exhaustive slot fillings -------------------------------------------------------
    for cmask in 0u32..(1 << m) {
        for use_b_msg in [false, true] {
            let mut comms = BTreeMap::new();
            for (i, id) in signers.iter().enumerate() {
                comms.insert(*id, if cmask >> i & 1 == 1 { b.commitments[id] } else { a.commitments[id] });
            }
            let msg = if use_b_msg { &msg_b } else { &msg_a };
            let package = SigningPackage::new(comms, msg);
            // decided on the wire encodings, not by the library's PartialEq
            let pbytes = package.serialize().ok();
            let is_a = pbytes == a.package.serialize().ok();
            let is_b = pbytes == b.package.serialize().ok();
            // every A share / B share verified standalone against this package
            for id in &signers {
                let vs = keys.pubkeys.verifying_shares()[id];
                let ra = frost::verify_signature_share(*id, &vs, &a.shares[id], &package, &vk);
                if is_a {
                    ensure!(ctx, ra.is_ok(), "C05/own-session-share-rejected", "share of session A rejected in its own session: {:?}", ra);
                } else {
                    ensure!(ctx, ra.is_err(), "C05/share-accepted-in-other-package", "share made for package A verifies against a different package (commitment slots from B: {:b}, message of {}) n={} t={} |S|={}", cmask, if use_b_msg { "B" } else { "A" }, shape.n, shape.t, m);
                }
                let rb = frost::verify_signature_share(*id, &vs, &b.shares[id], &package, &vk);
                if is_b {
                    ensure!(ctx, rb.is_ok(), "C05/own-session-share-rejected", "share of session B rejected in its own session: {:?}", rb);
                } else {
                    ensure!(ctx, rb.is_err(), "C05/share-accepted-in-other-package", "share made for package B verifies against a different package (slots {:b})", cmask);
                }
            }
            for smask in 0u32..(1 << m) {
                let mut shares = BTreeMap::new();
                for (i, id) in signers.iter().enumerate() {
                    shares.insert(*id, if smask >> i & 1 == 1 { b.shares[id] } else { a.shares[id] });
                }
                let all_a = smask == 0;
                let all_b = smask == (1 << m) - 1;
                let expect_ok = (is_a && all_a) || (is_b && all_b);
                ctx.eval(&format!("{base},fill,{cmask:b},{use_b_msg},{smask:b}"), !(is_a && all_a));
                if is_b && all_b {
                    ctx.label("fill:all-B-is-valid-session");
                }
                match agg_ok::<C>(&package, &shares, &keys.pubkeys) {
                    Ok(sig) => {
                        ensure!(ctx, expect_ok, "C05/cross-session-aggregate-accepted", "aggregate accepted a mix: commitment slots from B {:b}, message of {}, share slots from B {:b} (n={} t={} |S|={})", cmask, if use_b_msg { "B" } else { "A" }, smask, shape.n, shape.t, m);
                        ensure!(ctx, vk.verify(msg, &sig).is_ok(), "C05/aggregate-returned-invalid", "aggregate returned a signature that does not verify");
                    }
                    Err(e) => {
                        ensure!(ctx, !expect_ok, "C05/own-session-aggregate-rejected", "aggregate rejected a consistent session: {:?}", e);
                    }
                }
            }
        }
    }

    // ---- single-field substitutions of package A ------------------------------------------
    let mut subs: Vec<(String, SigningPackage<C>)> = Vec::new();
    // message
    if !msg_a.is_empty() {
        let mut mm = msg_a.clone();
        let i = rng.below(mm.len() as u64) as usize;
        mm[i] ^= 1 << rng.below(8);
        subs.push(("msg-flip".into(), SigningPackage::new(a.commitments.clone(), &mm)));
        subs.push(("msg-truncate".into(), SigningPackage::new(a.commitments.clone(), &msg_a[..msg_a.len() - 1])));
    }
    {
        let mut mm = msg_a.clone();
        mm.push(0);
        subs.push(("msg-extend".into(), SigningPackage::new(a.commitments.clone(), &mm)));
    }
    // each signer's hiding / binding commitment
    for (i, id) in signers.iter().enumerate() {
        let ca = a.commitments[id];
        let other = signers[(i + 1) % m];
        let rnd_el = NonceCommitment::<C>::new(gen_::<C>() * sc_rand_nonzero::<C>(rng.next()));
        let variants: Vec<(&str, SigningCommitments<C>)> = vec![
            ("hiding-from-B", SigningCommitments::new(*b.commitments[id].hiding(), *ca.binding())),
            ("binding-from-B", SigningCommitments::new(*ca.hiding(), *b.commitments[id].binding())),
            ("hiding-from-other-signer", SigningCommitments::new(*a.commitments[&other].hiding(), *ca.binding())),
            ("binding-from-other-signer", SigningCommitments::new(*ca.hiding(), *a.commitments[&other].binding())),
            ("hiding-binding-swapped", SigningCommitments::new(*ca.binding(), *ca.hiding())),
            ("hiding-random", SigningCommitments::new(rnd_el, *ca.binding())),
            ("binding-random", SigningCommitments::new(*ca.hiding(), rnd_el)),
        ];
        for (name, sc) in variants {
            let mut comms = a.commitments.clone();
            comms.insert(*id, sc);
            subs.push((format!("{name}@{i}"), SigningPackage::new(comms, &msg_a)));
        }
        // compensated substitution: (D_j + rho_j*T, E_j - T) leaves R unchanged iff rho_j ignores the commitments
        let bfl = frost::compute_binding_factor_list(&a.package, &crate::props::c03::even_vk::<C>(&vk), &[]).map_err(|e| inconclusive(format!("{e:?}")))?;
        if let Some(rho) = bfl.get(id) {
            let rho = sc_from_bytes::<C>(&rho.serialize()).ok_or_else(|| inconclusive("rho bytes"))?;
            let tt = gen_::<C>() * sc_rand_nonzero::<C>(rng.next());
            let d2 = ca.hiding().value() + tt * rho;
            let e2 = ca.binding().value() - tt;
            if d2 != ident::<C>() && e2 != ident::<C>() {
                let mut comms = a.commitments.clone();
                comms.insert(*id, SigningCommitments::new(NonceCommitment::new(d2), NonceCommitment::new(e2)));
                subs.push((format!("compensated@{i}"), SigningPackage::new(comms, &msg_a)));
                ctx.label("sub:compensated");
            }
        }
    }
    // participant set
    if m > shape.t as usize {
        let drop = rng.below(m as u64) as usize;
        let mut comms = a.commitments.clone();
        comms.remove(&signers[drop]);
        subs.push((format!("signer-dropped@{drop}"), SigningPackage::new(comms, &msg_a)));
        ctx.label("sub:signer-dropped");
    }
    let outsiders: Vec<Id<C>> = keys.ids.iter().filter(|i| !signers.contains(i)).copied().collect();
    if let Some(extra) = outsiders.first() {
        let (_, c) = frost::round1::commit(keys.kps[extra].signing_share(), &mut Tape::random(rng.next()));
        let mut comms = a.commitments.clone();
        comms.insert(*extra, c);
        subs.push(("signer-added".into(), SigningPackage::new(comms, &msg_a)));
        ctx.label("sub:signer-added");
        // replace one identifier by an outsider (same commitments, other slot)
        let rep = rng.below(m as u64) as usize;
        let mut comms = a.commitments.clone();
        let c = comms.remove(&signers[rep]).unwrap();
        comms.insert(*extra, c);
        subs.push((format!("signer-replaced@{rep}"), SigningPackage::new(comms, &msg_a)));
    }
    for (name, package) in &subs {
        // "is this really another package?" is decided on the wire encodings, not by the library's PartialEq
        if package.serialize().ok() == a.package.serialize().ok() {
            continue;
        }
        ctx.eval(&format!("{base},sub,{name}"), true);
        for id in &signers {
            let vs = keys.pubkeys.verifying_shares()[id];
            let r = frost::verify_signature_share(*id, &vs, &a.shares[id], package, &vk);
            ensure!(ctx, r.is_err(), "C05/share-accepted-after-substitution", "share of signer {} made for package A still verifies after substitution '{}' (n={} t={} |S|={})", id_hex::<C>(id), name, shape.n, shape.t, m);
        }
        let r = agg_ok::<C>(package, &a.shares, &keys.pubkeys);
        ensure!(ctx, r.is_err(), "C05/aggregate-accepted-after-substitution", "aggregate accepted A's shares with package substitution '{}' (n={} t={} |S|={})", name, shape.n, shape.t, m);
        // signer side: a signer whose own slot changed must refuse to sign with its A nonces
        for id in &signers {
            let r = frost::round2::sign(package, &a.nonces[id], &keys.kps[id]);
            match package.signing_commitments().get(id) {
                None => {
                    ensure!(ctx, matches!(r, Err(Error::MissingCommitment)), "C05/signs-without-own-entry", "signer {} signed / failed differently although its entry is missing ('{}'): {:?}", id_hex::<C>(id), name, r.as_ref().map(|_| "Ok"));
                    ctx.label("signer-side:missing");
                }
                // compared element by element, not by the library's PartialEq
                Some(c) if c.hiding().value() != a.commitments[id].hiding().value() || c.binding().value() != a.commitments[id].binding().value() => {
                    ensure!(ctx, matches!(r, Err(Error::IncorrectCommitment)), "C05/signs-with-foreign-commitment", "signer {} did not refuse with IncorrectCommitment although its entry differs from its nonces ('{}'): {:?}", id_hex::<C>(id), name, r.as_ref().map(|_| "Ok"));
                    ctx.label("signer-side:incorrect");
                }
                Some(_) => {
                    // own entry intact: signing may proceed; the resulting share is for *that* package:
                    // it must not equal the A share unless it is the same package
                    if let Ok(s2) = r {
                        if package.signing_commitments().len() >= shape.t as usize {
                            ensure!(ctx, share_scalar::<C>(&s2) != share_scalar::<C>(&a.shares[id]), "C05/share-independent-of-package", "signer {} produced the same share for a different package ('{}')", id_hex::<C>(id), name);
                        }
                    }
                }
            }
        }
    }
    // signer B-nonces with package A and vice versa
    for id in &signers {
        let r = frost::round2::sign(&a.package, &b.nonces[id], &keys.kps[id]);
        ensure!(ctx, matches!(r, Err(Error::IncorrectCommitment)), "C05/signs-with-foreign-commitment", "signer used session-B nonces on package A: {:?}", r.as_ref().map(|_| "Ok"));
        ctx.label("signer-side:incorrect");
    }

    // group key substitution and claimed identifier
    ctx.eval(&format!("{base},sub,group-key"), true);
    let other_vk = frost::VerifyingKey::<C>::new(vk.to_element() + gen_::<C>());
    for (i, id) in signers.iter().enumerate() {
        let vs = keys.pubkeys.verifying_shares()[id];
        let r = frost::verify_signature_share(*id, &vs, &a.shares[id], &a.package, &other_vk);
        ensure!(ctx, r.is_err(), "C05/share-accepted-under-other-key", "share verifies under a different group key");
        let j = signers[(i + 1) % m];
        let vsj = keys.pubkeys.verifying_shares()[&j];
        let r = frost::verify_signature_share(j, &vsj, &a.shares[id], &a.package, &vk);
        ensure!(ctx, r.is_err(), "C05/share-accepted-under-other-identifier", "share of {} verifies when claimed by {}", id_hex::<C>(id), id_hex::<C>(&j));
        let r = frost::verify_signature_share(*id, &vsj, &a.shares[id], &a.package, &vk);
        ensure!(ctx, r.is_err(), "C05/share-accepted-under-other-verifying-share", "share of {} verifies under the verifying share of {}", id_hex::<C>(id), id_hex::<C>(&j));
    }
    let pubs2 = PublicKeyPackage::<C>::new(keys.pubkeys.verifying_shares().clone(), other_vk, keys.pubkeys.min_signers());
    ensure!(ctx, agg_ok::<C>(&a.package, &a.shares, &pubs2).is_err(), "C05/aggregate-accepted-under-other-key", "aggregate succeeded with a different group key in the public key package");
    // swapped claimed identifiers in the share map
    {
        ctx.eval(&format!("{base},sub,claimed-identifier"), true);
        let mut shares = a.shares.clone();
        shares.insert(signers[0], a.shares[&signers[1]]);
        shares.insert(signers[1], a.shares[&signers[0]]);
        if share_scalar::<C>(&a.shares[&signers[0]]) != share_scalar::<C>(&a.shares[&signers[1]]) {
            let r = agg_ok::<C>(&a.package, &shares, &keys.pubkeys);
            // the sum is unchanged, so the aggregate signature is valid: allowed ("can at most yield a valid signature")
            if let Ok(sig) = r {
                ensure!(ctx, vk.verify(&msg_a, &sig).is_ok(), "C05/aggregate-returned-invalid", "swapped shares aggregated into an invalid signature");
            }
        }
        // a share with an extra +0 is the same share; with the share of another holder under the wrong id, standalone verify fails (checked above)
        let _ = share_from::<C>(zero::<C>());
    }

    // a share filed under the identifier of a key holder that does not take part in the session
    // (the participant set / claimed identifier is replaced in the *share map*; the sum is unchanged)
    if let Some(out_id) = outsiders.first() {
        for (i, id) in signers.iter().enumerate() {
            ctx.eval(&format!("{base},sub,share-refiled-under-non-participant@{i}"), true);
            ctx.label("sub:share-refiled-under-non-participant");
            let mut shares = a.shares.clone();
            let s = shares.remove(id).unwrap();
            shares.insert(*out_id, s);
            let r = agg_ok::<C>(&a.package, &shares, &keys.pubkeys);
            ensure!(ctx, r.is_err(), "C05/aggregate-accepts-foreign-share-identifier", "aggregate accepted the share of signer #{i} filed under the non-participating key holder {} (n={} t={} |S|={})", id_hex::<C>(out_id), shape.n, shape.t, m);
            let r = frost::aggregate_custom(&a.package, &shares, &keys.pubkeys, frost::CheaterDetection::AllCheaters);
            ensure!(ctx, r.is_err(), "C05/aggregate-accepts-foreign-share-identifier", "aggregate_custom(AllCheaters) accepted the share of signer #{i} filed under a non-participant");
        }
    }

    // identity commitment in somebody's slot
    for which in 0..2 {
        ctx.eval(&format!("{base},sub,identity-commitment-{which}"), true);
        ctx.label("sub:identity-commitment");
        let victim = signers[rng.below(m as u64) as usize];
        let ca = a.commitments[&victim];
        let idc = NonceCommitment::<C>::new(ident::<C>());
        let sc = if which == 0 { SigningCommitments::new(idc, *ca.binding()) } else { SigningCommitments::new(*ca.hiding(), idc) };
        let mut comms = a.commitments.clone();
        comms.insert(victim, sc);
        let package = SigningPackage::new(comms, &msg_a);
        for id in &signers {
            let r = frost::round2::sign(&package, &a.nonces[id], &keys.kps[id]);
            ensure!(ctx, r.is_err(), "C05/identity-commitment-accepted", "signer {} signed a package containing an identity commitment", id_hex::<C>(id));
            let vs = keys.pubkeys.verifying_shares()[id];
            let r = frost::verify_signature_share(*id, &vs, &a.shares[id], &package, &vk);
            ensure!(ctx, r.is_err(), "C05/identity-commitment-accepted", "share verification accepted a package containing an identity commitment");
        }
        ensure!(ctx, agg_ok::<C>(&package, &a.shares, &keys.pubkeys).is_err(), "C05/identity-commitment-accepted", "aggregate accepted a package containing an identity commitment");
    }
    Ok(())
}
