//! C08 — key generation aborts and names the sender on any malformed peer contribution.

use crate::common::*;
use crate::engine::*;
use crate::suites::*;
use crate::tape::{Sm, Tape};
use crate::{dispatch, ensure};
use frost_core::keys::dkg::{self, round1, round2};
use frost_core::keys::{CoefficientCommitment, SigningShare, VerifiableSecretSharingCommitment};
use frost_core::{Error, Signature};
use proptest::prelude::*;
use serde::{Deserialize, Serialize};
use std::collections::BTreeMap;

pub struct C08;

#[derive(Clone, Debug, Serialize, Deserialize)]
pub struct Case {
    pub shape: Shape,
    pub ids: IdSpec,
    pub seed: u64,
}

const SHAPES: [(u16, u16); 18] =
    [(3, 2), (3, 3), (4, 2), (4, 3), (4, 4), (5, 2), (5, 3), (5, 4), (5, 5), (6, 2), (6, 4), (6, 6), (2, 2), (6, 3), (10, 2), (12, 5), (17, 3), (20, 2)];
/// shapes from this index on are LARGE groups: one sampled receiver, senders {first, middle, second-to-last, last}
const LARGE_FROM: u32 = 14;

impl Property for C08 {
    type Case = Case;
    fn id(&self) -> &'static str {
        "C08"
    }
    fn level(&self) -> &'static str {
        "fault_enumeration"
    }
    fn rule(&self) -> String {
        "per generated honest DKG transcript (suite, n in 2..6 with every t - plus the large groups (10,2), (12,5), (17,3), (20,2) with one sampled \
         receiver and the senders at positions first / middle / second-to-last / last -, identifier style, seeds; a second transcript of the same \
         participants supplies valid-but-foreign material) EVERY (receiver, sender) pair x EVERY fault of the catalogue is injected alone: \
         round one: proof R replaced/shifted, proof z +1/-1/random, proof recomputed for another identifier, proof from the sender's \
         other run, EACH commitment coefficient k=0..t-1 replaced, commitment truncated/extended, another sender's package in this slot, \
         the sender's package from its other run, contribution filed under the receiver's own / an unknown identifier, missing, surplus, the receiver's own package echoed (added / replacing); \
         round two: share +1/-1/zero/random, share computed for another recipient, share of another sender, share from the sender's \
         other run, filed under own / unknown identifier, missing, surplus, own share echoed. One evaluation per (transcript, receiver, sender, fault). \
         non-trivial = every fault other than 'proof z of the first peer' and 'share of the first peer'; distinct = distinct \
         (suite, n, t, receiver position, sender position, fault) tuples"
            .into()
    }
    fn assumptions(&self) -> Vec<String> {
        vec![
            "'attributable' is read as: the fault is a proof fault, a coefficient fault or a share fault (the error type can carry a culprit); structural faults (length, count, own/unknown slot) only have to fail without naming a correctly filed honest sender".into(),
            "a coefficient k>=1 fault may be rejected in part2 or in part3; it must never yield key material".into(),
        ]
    }
    fn plan(&self, suite: SuiteId, tier: Tier) -> Vec<(u32, u32)> {
        match (tier, suite.slow()) {
            (Tier::Quick, false) => (0..18).map(|s| (s, if s < LARGE_FROM { 3 } else { 1 })).collect(),
            (Tier::Quick, true) => vec![(0, 1), (1, 1), (2, 1), (3, 1), (4, 1), (12, 1), (14, 1)],
            (Tier::Thorough, false) => (0..18).map(|s| (s, if s < LARGE_FROM { 60 } else { 12 })).collect(),
            (Tier::Thorough, true) => (0..16).map(|s| (s, if s < LARGE_FROM { 6 } else { 1 })).collect(),
        }
    }
    fn chunk(&self, _suite: SuiteId) -> u32 {
        1
    }
    fn max_shrink_iters(&self) -> u32 {
        24
    }
    fn exhaustive(&self, _tier: Tier) -> bool {
        false
    }
    fn strategy(&self, _suite: SuiteId, _tier: Tier, stratum: u32) -> BoxedStrategy<Case> {
        let (n, t) = SHAPES[stratum as usize % SHAPES.len()];
        (idspec_strategy(None), any::<u64>()).prop_map(move |(ids, seed)| Case { shape: Shape { n, t }, ids, seed }).boxed()
    }
    fn required_labels(&self, tier: Tier) -> Vec<(String, u64)> {
        let m = tier.pick(20, 200);
        [
            "r1:proof-R-random", "r1:proof-z+1", "r1:proof-for-other-identifier", "r1:proof-from-other-run", "r1:coefficient-0", "r1:coefficient-top",
            "r1:truncate", "r1:extend", "r1:other-senders-package", "r1:package-from-other-run", "r1:filed-under-own-id", "r1:filed-under-unknown-id",
            "r1:missing", "r1:surplus", "r2:share+1", "r2:share-zero", "r2:share-for-other-recipient", "r2:share-from-other-run",
            "r2:share-of-other-sender", "r2:filed-under-own-id", "r2:filed-under-unknown-id", "r2:missing", "r2:surplus", "r1:own-package-echoed", "r1:own-package-replaces-sender", "r2:own-share-echoed", "r1:length-t+65536", "large-group", "sender=last", "receiver=last",
        ]
        .iter()
        .map(|s| (s.to_string(), m))
        .collect()
    }
    fn check(&self, suite: SuiteId, case: &Case, ctx: &mut Ctx) -> CheckResult {
        dispatch!(suite, check(case, ctx))
    }
}

type R1<C> = BTreeMap<Id<C>, round1::Package<C>>;
type R2<C> = BTreeMap<Id<C>, round2::Package<C>>;

#[derive(Clone, Copy, PartialEq, Eq, Debug)]
enum Expect {
    /// must fail in part2 with a culprit-bearing error naming exactly the sender
    Part2Culprit,
    /// must fail in part2; no correctly filed honest sender may be named
    Part2Structural,
    /// may fail in part2 or part3; when it fails with a culprit-bearing error it names exactly the sender; in part3 it must
    Part3Culprit,
    /// must fail in part3 (part2 is not affected); structural
    Part3Structural,
}

fn with_commitment<C: Suite>(p: &round1::Package<C>, comm: Vec<CoefficientCommitment<C>>) -> round1::Package<C> {
    round1::Package::new(VerifiableSecretSharingCommitment::new(comm), *p.proof_of_knowledge())
}
fn with_proof<C: Suite>(p: &round1::Package<C>, r: El<C>, z: Sc<C>) -> round1::Package<C> {
    round1::Package::new(p.commitment().clone(), Signature::new(r, z))
}

fn check<C: Suite>(case: &Case, ctx: &mut Ctx) -> CheckResult {
    let shape = Shape { n: case.shape.n.clamp(2, 24), t: case.shape.t.clamp(2, case.shape.n.clamp(2, 24)) };
    let (n, t) = (shape.n as usize, shape.t as usize);
    let idv = {
        let mut v = make_ids::<C>(case.ids, n);
        v.sort();
        v
    };
    let a = dkg_rounds::<C>(shape, &idv, case.seed, "C08")?;
    let b = dkg_rounds::<C>(shape, &idv, case.seed ^ 0xb0b, "C08")?;
    let mut rng = Sm(case.seed ^ 0xc08);
    let unknown = fresh_id::<C>(&idv, IdSpec { style: case.ids.style, seed: rng.next() });
    // a valid round-one package made by `unknown` itself (for the surplus fault)
    let (_, unknown_pkg) = dkg::part1::<C, _>(unknown, shape.n, shape.t, Tape::random(rng.next())).map_err(|e| inconclusive(format!("part1 for surplus: {e:?}")))?;

    // large groups: one sampled receiver and four sender positions; small groups: every (receiver, sender) pair
    let large = n > 8;
    let r_pick = (case.seed >> 24) as usize % n;
    let s_picks: Vec<usize> = if large {
        let v: Vec<usize> = (0..n).filter(|i| *i != r_pick).collect();
        let l = v.len();
        let mut w = vec![v[0], v[l / 2], v[l - 2], v[l - 1]];
        w.dedup();
        w
    } else {
        Vec::new()
    };
    if large {
        ctx.label("large-group");
    }
    for (ri, r) in idv.iter().enumerate() {
        if large && ri != r_pick {
            continue;
        }
        let (r1_honest, r2_honest) = dkg_inputs_for(&a, r);
        // control: the unmodified inputs succeed
        {
            let p2 = dkg::part2(a.r1_secret[r].clone(), &r1_honest);
            ensure!(ctx, p2.is_ok(), "C08/honest-run-fails", "part2 fails on honest input: {:?}", p2.as_ref().err());
            let p3 = dkg::part3(&a.r2_secret[r], &r1_honest, &r2_honest);
            ensure!(ctx, p3.is_ok(), "C08/honest-run-fails", "part3 fails on honest input: {:?}", p3.as_ref().err());
        }
        for (si, s) in idv.iter().enumerate() {
            if s == r || (large && !s_picks.contains(&si)) {
                continue;
            }
            let pkg = &a.r1_pkg[s];
            let comm: Vec<CoefficientCommitment<C>> = pkg.commitment().coefficients().to_vec();
            let pr = *pkg.proof_of_knowledge().R();
            let pz = *pkg.proof_of_knowledge().z();
            let other_sender = idv.iter().find(|x| *x != r && *x != s).copied();
            let other_recipient = other_sender;
            let mut faults: Vec<(String, Expect, R1<C>, R2<C>)> = Vec::new();
            let base1 = r1_honest.clone();
            let base2 = r2_honest.clone();
            let mut r1f = |name: &str, e: Expect, p: round1::Package<C>| {
                let mut m = base1.clone();
                m.insert(*s, p);
                faults.push((format!("r1:{name}"), e, m, base2.clone()));
            };
            // ---- proof faults
            r1f("proof-R-random", Expect::Part2Culprit, with_proof(pkg, gen_::<C>() * sc_rand_nonzero::<C>(rng.next()), pz));
            r1f("proof-R-shifted", Expect::Part2Culprit, with_proof(pkg, pr + gen_::<C>(), pz));
            r1f("proof-z+1", Expect::Part2Culprit, with_proof(pkg, pr, pz + one::<C>()));
            r1f("proof-z-1", Expect::Part2Culprit, with_proof(pkg, pr, pz - one::<C>()));
            r1f("proof-z-random", Expect::Part2Culprit, with_proof(pkg, pr, sc_rand::<C>(rng.next())));
            {
                // a proof that is valid, but for another identifier
                let target = other_sender.unwrap_or(unknown);
                let coeffs = a.r1_secret[s].coefficients();
                let sig = dkg::compute_proof_of_knowledge::<C, _>(target, &coeffs, pkg.commitment(), Tape::random(rng.next())).map_err(|e| inconclusive(format!("pok: {e:?}")))?;
                r1f("proof-for-other-identifier", Expect::Part2Culprit, round1::Package::new(pkg.commitment().clone(), sig));
            }
            r1f("proof-from-other-run", Expect::Part2Culprit, round1::Package::new(pkg.commitment().clone(), *b.r1_pkg[s].proof_of_knowledge()));
            // ---- commitment coefficients
            for k in 0..t {
                let mut c2 = comm.clone();
                let repl = c2[k].value() + gen_::<C>() * sc_rand_nonzero::<C>(rng.next());
                if repl == ident::<C>() {
                    continue;
                }
                c2[k] = CoefficientCommitment::new(repl);
                let name = if k == 0 { "coefficient-0".to_string() } else if k == t - 1 { "coefficient-top".to_string() } else { format!("coefficient-{k}") };
                r1f(&name, if k == 0 { Expect::Part2Culprit } else { Expect::Part3Culprit }, with_commitment(pkg, c2));
            }
            {
                let mut c2 = comm.clone();
                c2.pop();
                r1f("truncate", Expect::Part2Structural, with_commitment(pkg, c2));
                let mut c3 = comm.clone();
                c3.push(CoefficientCommitment::new(gen_::<C>() * sc_rand_nonzero::<C>(rng.next())));
                r1f("extend", Expect::Part2Structural, with_commitment(pkg, c3));
                // further wrong lengths: empty, a single coefficient (when t > 2), twice as long
                r1f("length-0", Expect::Part2Structural, with_commitment(pkg, vec![]));
                if t > 2 {
                    r1f("length-1", Expect::Part2Structural, with_commitment(pkg, comm[..1].to_vec()));
                }
                let mut c4 = comm.clone();
                c4.extend(comm.iter().copied());
                r1f("length-2t", Expect::Part2Structural, with_commitment(pkg, c4));
                // a length that equals t only modulo 2^16 (once per receiver: the vector has 65536 + t entries)
                if si == if ri == 0 { 1 } else { 0 } {
                    let mut c5 = comm.clone();
                    c5.resize(comm.len() + 65536, CoefficientCommitment::new(gen_::<C>() * sc_rand_nonzero::<C>(rng.next())));
                    r1f("length-t+65536", Expect::Part2Structural, with_commitment(pkg, c5));
                }
            }
            if let Some(o) = other_sender {
                r1f("other-senders-package", Expect::Part2Culprit, a.r1_pkg[&o].clone());
            }
            r1f("package-from-other-run", Expect::Part3Culprit, b.r1_pkg[s].clone());
            drop(r1f);
            // ---- structural round-one faults
            {
                let mut m = base1.clone();
                let p = m.remove(s).unwrap();
                m.insert(*r, p);
                faults.push(("r1:filed-under-own-id".into(), Expect::Part2Structural, m, base2.clone()));
                let mut m = base1.clone();
                let p = m.remove(s).unwrap();
                m.insert(unknown, p);
                faults.push(("r1:filed-under-unknown-id".into(), Expect::Part2Structural, m, base2.clone()));
                let mut m = base1.clone();
                m.remove(s);
                faults.push(("r1:missing".into(), Expect::Part2Structural, m, base2.clone()));
                let mut m = base1.clone();
                m.insert(unknown, unknown_pkg.clone());
                faults.push(("r1:surplus".into(), Expect::Part2Structural, m, base2.clone()));
                // the receiver's own round-one package echoed back to it, next to all n-1 honest ones
                let mut m = base1.clone();
                m.insert(*r, a.r1_pkg[r].clone());
                faults.push(("r1:own-package-echoed".into(), Expect::Part2Structural, m, base2.clone()));
                // ... and echoed in place of this sender's (n-1 entries, one of them the receiver's own)
                let mut m = base1.clone();
                m.remove(s);
                m.insert(*r, a.r1_pkg[r].clone());
                faults.push(("r1:own-package-replaces-sender".into(), Expect::Part2Structural, m, base2.clone()));
            }
            // ---- the same over-long commitment, but CONSISTENT: the sender really uses a polynomial with 65536 further
            // coefficients (all equal to e) and sends the matching share. Every check of the share equation passes; only
            // the length check can stop it. (Once per case for the 3-of-2 shape of the fast suites: part3 evaluates
            // 65538 terms.)
            if n == 3 && t == 2 && ri == 0 && si == 1 && !C::SID.slow() {
                let e = sc_rand_nonzero::<C>(rng.next());
                let mut c6 = comm.clone();
                c6.resize(comm.len() + 65536, CoefficientCommitment::new(gen_::<C>() * e));
                let x = r.to_scalar();
                // e * sum_{k=t}^{t+65535} x^k
                let mut pw = one::<C>();
                for _ in 0..t {
                    pw = pw * x;
                }
                let mut acc = zero::<C>();
                for _ in 0..65536u32 {
                    acc = acc + pw;
                    pw = pw * x;
                }
                let mut m1 = base1.clone();
                m1.insert(*s, with_commitment(pkg, c6));
                let mut m2 = base2.clone();
                m2.insert(*s, round2::Package::new(SigningShare::new(base2[s].signing_share().to_scalar() + e * acc)));
                faults.push(("r1:length-t+65536-with-matching-share".into(), Expect::Part2Structural, m1, m2));
            }
            // ---- round-two faults
            let sh = base2[s].signing_share().to_scalar();
            let mut r2f = |name: &str, e: Expect, x: Sc<C>| {
                let mut m = base2.clone();
                m.insert(*s, round2::Package::new(SigningShare::new(x)));
                faults.push((format!("r2:{name}"), e, base1.clone(), m));
            };
            r2f("share+1", Expect::Part3Culprit, sh + one::<C>());
            r2f("share-1", Expect::Part3Culprit, sh - one::<C>());
            r2f("share-zero", Expect::Part3Culprit, zero::<C>());
            r2f("share-random", Expect::Part3Culprit, sc_rand::<C>(rng.next()));
            r2f("share-from-other-run", Expect::Part3Culprit, b.r2_pkg[s][r].signing_share().to_scalar());
            if let Some(o) = other_recipient {
                r2f("share-for-other-recipient", Expect::Part3Culprit, a.r2_pkg[s][&o].signing_share().to_scalar());
                r2f("share-of-other-sender", Expect::Part3Culprit, a.r2_pkg[&o][r].signing_share().to_scalar());
            }
            drop(r2f);
            {
                let mut m = base2.clone();
                let p = m.remove(s).unwrap();
                m.insert(*r, p);
                faults.push(("r2:filed-under-own-id".into(), Expect::Part3Structural, base1.clone(), m));
                let mut m = base2.clone();
                let p = m.remove(s).unwrap();
                m.insert(unknown, p);
                faults.push(("r2:filed-under-unknown-id".into(), Expect::Part3Structural, base1.clone(), m));
                let mut m = base2.clone();
                m.remove(s);
                faults.push(("r2:missing".into(), Expect::Part3Structural, base1.clone(), m));
                let mut m = base2.clone();
                m.insert(unknown, round2::Package::new(SigningShare::new(sc_rand::<C>(rng.next()))));
                faults.push(("r2:surplus".into(), Expect::Part3Structural, base1.clone(), m));
                // a round-two package filed under the receiver's own identifier next to all honest ones
                // (the value is what the receiver's own polynomial gives for itself, i.e. a 'plausible' self-share)
                let mut m = base2.clone();
                let own_coeffs = a.r1_secret[r].coefficients();
                let own_self = poly_eval::<C>(&own_coeffs, r.to_scalar());
                m.insert(*r, round2::Package::new(SigningShare::new(own_self)));
                faults.push(("r2:own-share-echoed".into(), Expect::Part3Structural, base1.clone(), m));
            }

            for (name, expect, r1m, r2m) in faults {
                let first_peer = si == if ri == 0 { 1 } else { 0 };
                let trivial = first_peer && (name == "r1:proof-z+1" || name == "r2:share+1") && n == 5 && t == 3;
                ctx.eval(&format!("{n},{t},{ri},{si},{name}"), !trivial);
                let lname = if name.starts_with("r1:coefficient-") && name != "r1:coefficient-0" && name != "r1:coefficient-top" { "r1:coefficient-mid".to_string() } else { name.clone() };
                ctx.label(&lname);
                if si == n - 1 || (ri == n - 1 && si == n - 2) {
                    ctx.label("sender=last");
                }
                if ri == n - 1 {
                    ctx.label("receiver=last");
                }
                let desc = format!("n={n} t={t} ids={} receiver#{ri} sender#{si} fault {name}", case.ids.style.name());
                // identifiers that may legitimately be named: the sender's slot (and the foreign slot for misfiled ones)
                let allowed: Vec<Id<C>> = vec![*s, unknown];
                let honest_named = |e: &Error<C>| e.culprits().iter().any(|c| !allowed.contains(c));
                let p2 = dkg::part2(a.r1_secret[r].clone(), &r1m);
                match (&p2, expect) {
                    (Err(e), Expect::Part2Culprit) => {
                        ensure!(ctx, e.culprits() == vec![*s], "C08/culprit-wrong", "part2 failed with {:?}; expected an error naming exactly the sender ({desc})", e);
                        continue;
                    }
                    (Err(e), Expect::Part2Structural) => {
                        ensure!(ctx, !honest_named(e), "C08/honest-sender-named", "part2 named a correctly filed honest sender: {:?} ({desc})", e);
                        continue;
                    }
                    (Err(e), Expect::Part3Culprit) => {
                        // stricter than required: allowed, but the blame must still be right
                        let c = e.culprits();
                        ensure!(ctx, c.is_empty() || c == vec![*s], "C08/culprit-wrong", "part2 failed with {:?} naming the wrong participant ({desc})", e);
                        continue;
                    }
                    (Err(e), Expect::Part3Structural) => {
                        ctx.fail("C08/honest-run-fails", format!("part2 failed although round one was untouched: {e:?} ({desc})"))?;
                        continue;
                    }
                    (Ok(_), Expect::Part2Culprit | Expect::Part2Structural) => {
                        ctx.fail("C08/fault-not-detected-at-first-step", format!("part2 accepted a round-one contribution with fault ({desc})"))?;
                    }
                    (Ok(_), _) => {}
                }
                // part3 with the secret state part2 produced on the same round-one input
                let r2s = match &p2 {
                    Ok((sec, _)) => sec.clone(),
                    Err(_) => continue,
                };
                let p3 = dkg::part3(&r2s, &r1m, &r2m);
                match p3 {
                    Ok((kp, pk)) => {
                        ctx.fail(
                            "C08/key-material-from-faulty-contribution",
                            format!(
                                "part3 produced key material despite the fault ({desc}); key package consistent with public package: {}",
                                pk.verifying_shares().get(kp.identifier()).map(|v| v.to_element()) == Some(gen_::<C>() * kp.signing_share().to_scalar())
                            ),
                        )?;
                    }
                    Err(e) => match expect {
                        Expect::Part3Culprit => {
                            ensure!(ctx, e.culprits() == vec![*s], "C08/culprit-wrong", "part3 failed with {:?}; expected an error naming exactly the sender ({desc})", e);
                        }
                        _ => {
                            ensure!(ctx, !honest_named(&e), "C08/honest-sender-named", "part3 named a correctly filed honest sender: {:?} ({desc})", e);
                        }
                    },
                }
            }
        }
    }
    Ok(())
}
