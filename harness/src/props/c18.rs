//! C18 — Taproot signatures are valid BIP-340 signatures for the BIP-341 output key.

use crate::common::*;
use crate::engine::*;
use crate::props::c04::{group_commitment_odd, judge_with, model, tamper_shares};
use crate::props::c07::expected_from_run;
use crate::suites::*;
use crate::tape::Sm;
use crate::{dispatch, ensure};
use frost_core as frost;
use frost_core::SigningPackage;
use proptest::prelude::*;
use serde::{Deserialize, Serialize};
use serde_json::json;
use std::collections::BTreeMap;

pub struct C18;

#[derive(Clone, Debug, Serialize, Deserialize)]
pub struct Case {
    pub shape: Shape,
    pub ids: IdSpec,
    pub dkg: bool,
    /// 0 absent, 1 empty, 2 32 bytes, 3 arbitrary 1..=100 bytes
    pub root_class: u8,
    pub want_p_odd: bool,
    pub want_q_odd: bool,
    pub want_r_odd: bool,
    pub subset: SubsetSpec,
    pub msg: MsgSpec,
    pub seed: u64,
}

impl Property for C18 {
    type Case = Case;
    fn id(&self) -> &'static str {
        "C18"
    }
    fn level(&self) -> &'static str {
        "exploration"
    }
    fn suites(&self) -> Vec<SuiteId> {
        vec![SuiteId::Secp256k1Tr]
    }
    fn rule(&self) -> String {
        "Taproot suite only. case = (n, t, identifier style, key source dealer/DKG, merkle root absent / empty / 32 bytes / arbitrary 1..100 \
         bytes, signer set, message, seeds) x ALL 8 parity triples (internal key Y, output key Y, group commitment Y), each CONSTRUCTED by \
         re-seeding keys, root and nonces (stratified: every triple x every root class x both key sources). Per case: sign_with_tweak / \
         aggregate_with_tweak, 64-byte signature verified by libsecp256k1 and the Python BIP-340 verifier under x(Q) with Q from the \
         reference's taproot_tweak_pubkey, rejected under x(P); tweak() keeps key package and public package consistent; honest shares \
         verify; a sampled cheater set (+ cancelling) and one signer with the opposite nonce sign are judged with the C04 model in all detection modes; DKG keys equal the key-path-only \
         tweak of the summed commitments and sign plainly; after a dealer / distributed share refresh the same signers still sign for the \
         same output key. One evaluation per case plus one per cheater probe. non-trivial = every case; \
         distinct = distinct (parity triple, root class, key source, n, t, |S|) tuples"
            .into()
    }
    fn assumptions(&self) -> Vec<String> {
        vec![
            "libsecp256k1 (secp256k1 crate) and frostref.py bip340_verify / taproot_tweak_pubkey (pinned to BIP-340 vectors 0 and 1) are the independent implementations".into(),
            "a tweak hash >= curve order (probability 2^-128) is ignored".into(),
        ]
    }
    fn plan(&self, _suite: SuiteId, tier: Tier) -> Vec<(u32, u32)> {
        // strata: 8 triples x 4 root classes x 2 key sources
        (0..64).map(|s| (s, tier.pick(24, 1200))).collect()
    }
    fn chunk(&self, _suite: SuiteId) -> u32 {
        6
    }
    fn strategy(&self, _suite: SuiteId, tier: Tier, stratum: u32) -> BoxedStrategy<Case> {
        let want_p_odd = stratum & 1 == 1;
        let want_q_odd = stratum & 2 == 2;
        let want_r_odd = stratum & 4 == 4;
        let root_class = ((stratum >> 3) & 3) as u8;
        let dkg = (stratum >> 5) & 1 == 1;
        let nmax = if dkg { tier.pick(5, 7) } else { tier.pick(8, 16) };
        (shape_strategy(nmax), idspec_strategy(None), subset_strategy(None), msg_short_strategy(), any::<u64>())
            .prop_map(move |(shape, ids, subset, msg, seed)| Case { shape, ids, dkg, root_class, want_p_odd, want_q_odd, want_r_odd, subset, msg, seed })
            .boxed()
    }
    fn required_labels(&self, tier: Tier) -> Vec<(String, u64)> {
        let m = tier.pick(20, 400);
        let mut v = Vec::new();
        for p in ["even", "odd"] {
            for q in ["even", "odd"] {
                for r in ["even", "odd"] {
                    v.push((format!("triple:P-{p},Q-{q},R-{r}"), m));
                }
            }
        }
        for c in ["absent", "empty", "32-bytes", "arbitrary"] {
            v.push((format!("root:{c}"), m));
        }
        v.push(("src:dkg".into(), m));
        v.push(("cheaters".into(), m));
        v.push(("nonce-sign-flipped".into(), m));
        v.push(("after-refresh:dealer".into(), m));
        v.push(("after-refresh:distributed".into(), m));
        v
    }
    fn check(&self, suite: SuiteId, case: &Case, ctx: &mut Ctx) -> CheckResult {
        dispatch!(suite, check(case, ctx))
    }
}

fn make_root(class: u8, rng: &mut Sm) -> Option<Vec<u8>> {
    match class % 4 {
        0 => None,
        1 => Some(vec![]),
        2 => Some(rng.bytes(32)),
        _ => {
            let l = 1 + rng.below(100) as usize;
            Some(rng.bytes(if l == 32 { 33 } else { l }))
        }
    }
}

fn check<C: Suite>(case: &Case, ctx: &mut Ctx) -> CheckResult {
    if !C::SID.taproot() {
        return Ok(());
    }
    let shape = Shape { n: case.shape.n.max(2), t: case.shape.t.clamp(2, case.shape.n.max(2)) };
    let source = if case.dkg { KeySource::Dkg } else { KeySource::Dealer };
    let mut rng = Sm(case.seed ^ 0xc18);
    let class_name = ["absent", "empty", "32-bytes", "arbitrary"][(case.root_class % 4) as usize];

    // ---- construct the wanted (internal key, output key) parities by re-seeding keys and root
    let mut kseed = case.seed;
    let mut found = None;
    for _ in 0..96 {
        let keys = make_keys::<C>(shape, case.ids, source, kseed, "C18")?;
        let p_odd = y_is_odd::<C>(&keys.pubkeys.verifying_key().to_element());
        let mut hit = None;
        if p_odd == case.want_p_odd {
            // try a few roots (classes with content) for the output-key parity
            for _ in 0..(if case.root_class % 4 >= 2 { 12 } else { 1 }) {
                let root = make_root(case.root_class, &mut rng);
                let tpk = C::tr_tweak_pubkeys(&keys.pubkeys, root.as_deref());
                if y_is_odd::<C>(&tpk.verifying_key().to_element()) == case.want_q_odd {
                    hit = Some((root, tpk));
                    break;
                }
            }
        }
        if let Some((root, tpk)) = hit {
            found = Some((keys, root, tpk));
            break;
        }
        kseed = kseed.wrapping_add(0x9e37_79b9_7f4a_7c15);
    }
    let (keys, root, tpk) = match found {
        Some(x) => x,
        None => {
            ctx.discard();
            return Ok(());
        }
    };
    let root_ref = root.as_deref();
    let pvk = *keys.pubkeys.verifying_key();
    let qvk = *tpk.verifying_key();
    let sub = make_subset(shape.n as usize, shape.t as usize, case.subset);
    let signers: Vec<Id<C>> = sub.iter().map(|i| keys.ids[*i]).collect();
    let m = signers.len();
    let msg = case.msg.bytes();

    // ---- construct the wanted group-commitment parity by re-seeding the nonces
    let mut sseed = rng.next();
    let mut sess = None;
    for _ in 0..64 {
        let (nonces, comms) = commit_all::<C>(&keys.kps, &signers, sseed);
        let package = SigningPackage::new(comms, &msg);
        if group_commitment_odd::<C>(&package, &qvk)? == case.want_r_odd {
            sess = Some((nonces, package));
            break;
        }
        sseed = sseed.wrapping_add(0x1234_5678_9abc_def1);
    }
    let (nonces, package) = match sess {
        Some(x) => x,
        None => {
            ctx.discard();
            return Ok(());
        }
    };
    let triple = format!("P-{},Q-{},R-{}", if case.want_p_odd { "odd" } else { "even" }, if case.want_q_odd { "odd" } else { "even" }, if case.want_r_odd { "odd" } else { "even" });
    ctx.eval(&format!("{triple},{class_name},{},{},{},{m}", source.name(), shape.n, shape.t), true);
    ctx.label(&format!("triple:{triple}"));
    ctx.label(&format!("root:{class_name}"));
    ctx.label(&format!("src:{}", source.name()));
    let desc = format!("n={} t={} |S|={m} ids={} src={} root={class_name} {triple}", shape.n, shape.t, case.ids.style.name(), source.name());

    // ---- the output key is the BIP-341 one
    let pb = el_bytes::<C>(&pvk.to_element()).ok_or_else(|| inconclusive("identity key"))?;
    let rf = ctx.py.call(&json!({"op":"tweak","pk":hex::encode(&pb),"root":root.as_ref().map(hex::encode)}))?;
    let qx = hex::decode(rf["qx"].as_str().unwrap_or("")).unwrap_or_default();
    let qb = el_bytes::<C>(&qvk.to_element()).ok_or_else(|| inconclusive("identity output key"))?;
    ensure!(ctx, qb[1..] == qx[..] && (qb[0] == 3) == (rf["parity"].as_u64() == Some(1)), "C18/output-key-not-bip341", "tweaked key is not taproot_tweak_pubkey(x(P), root) ({desc}): library {} reference x {} parity {}", hex::encode(&qb), hex::encode(&qx), rf["parity"]);
    if root.as_deref() == Some(&[][..]) {
        // an empty root hashes nothing extra: same key as the absent root
        let t0 = C::tr_tweak_pubkeys(&keys.pubkeys, None);
        ensure!(ctx, *t0.verifying_key() == qvk, "C18/empty-root", "empty root gives another output key than no root ({desc})");
    }
    // tweak keeps key package and public package consistent
    for id in &keys.ids {
        let tkp = C::tr_tweak_key_package(&keys.kps[id], root_ref);
        let gs = gen_::<C>() * tkp.signing_share().to_scalar();
        ensure!(ctx, tkp.verifying_share().to_element() == gs, "C18/tweaked-package-inconsistent", "tweaked key package: verifying share != G*signing share ({desc})");
        ensure!(ctx, tpk.verifying_shares().get(id).map(|v| v.to_element()) == Some(gs), "C18/tweaked-package-inconsistent", "tweaked public key package entry != G*tweaked signing share ({desc})");
        ensure!(ctx, *tkp.verifying_key() == qvk, "C18/tweaked-package-inconsistent", "tweaked key package and public package hold different keys ({desc})");
        ensure!(ctx, *tkp.min_signers() == shape.t && tpk.min_signers() == Some(shape.t), "C18/tweaked-package-inconsistent", "threshold lost by tweak ({desc})");
    }

    // ---- sign and aggregate with the tweak
    let mut shares = BTreeMap::new();
    for id in &signers {
        match C::tr_sign_with_tweak(&package, &nonces[id], &keys.kps[id], root_ref).unwrap() {
            Ok(s) => {
                shares.insert(*id, s);
            }
            Err(e) => return ctx.fail("C18/honest-sign-failed", format!("sign_with_tweak failed: {e:?} ({desc})")),
        }
    }
    let sig = match C::tr_aggregate_with_tweak(&package, &shares, &keys.pubkeys, root_ref).unwrap() {
        Ok(s) => s,
        Err(e) => return ctx.fail("C18/honest-aggregate-failed", format!("aggregate_with_tweak failed: {e:?} culprits {:?} ({desc})", e.culprits().iter().map(id_hex::<C>).collect::<Vec<_>>())),
    };
    let sigb = sig_bytes::<C>(&sig)?;
    ensure!(ctx, sigb.len() == 64, "C18/signature-length", "signature has {} bytes", sigb.len());
    // independent BIP-340 verification under x(Q) (libsecp256k1 + Python), from the *reference's* x(Q)
    let mut qkey = vec![2u8];
    qkey.extend_from_slice(&qx);
    let lib_secp = C::independent_verify(&qkey, &msg, &sigb);
    let py = ctx.py.call(&json!({"op":"bip340_verify","pkx":hex::encode(&qx),"msg":hex::encode(&msg),"sig":hex::encode(&sigb)}))?;
    ensure!(ctx, lib_secp == Some(true) && py["ok"].as_bool() == Some(true), "C18/not-bip340-valid-under-output-key", "signature is not BIP-340 valid under the BIP-341 output key (libsecp256k1: {:?}, reference: {}) ({desc})", lib_secp, py["ok"]);
    ensure!(ctx, qvk.verify(&msg, &sig).is_ok(), "C18/library-rejects-own-signature", "VerifyingKey::verify rejects the signature under the tweaked key ({desc})");
    // ... and not under the untweaked key
    let under_p = C::independent_verify(&pb, &msg, &sigb);
    ensure!(ctx, under_p == Some(false) && pvk.verify(&msg, &sig).is_err(), "C18/valid-under-internal-key", "signature verifies under the UNTWEAKED key ({desc})");

    // honest shares verify against the tweaked material
    for id in &signers {
        let r = frost::verify_signature_share(*id, &tpk.verifying_shares()[id], &shares[id], &package, &qvk);
        ensure!(ctx, r.is_ok(), "C18/honest-share-rejected", "verify_signature_share rejects an honest share ({desc}): {:?}", r);
    }

    // ---- cheater identification gives the same answers in every parity case
    {
        // another session for the other-session fault
        let (n2, c2) = commit_all::<C>(&keys.kps, &signers, rng.next());
        let p2 = SigningPackage::new(c2, &msg);
        let mut other = BTreeMap::new();
        for id in &signers {
            if let Ok(s) = C::tr_sign_with_tweak(&p2, &n2[id], &keys.kps[id], root_ref).unwrap() {
                other.insert(*id, s);
            }
        }
        if other.len() == m {
            for cancelling in [false, true] {
                let mask = 1 + rng.below((1u64 << m.min(16)) - 1) as u32;
                let cheat_pos: Vec<usize> = (0..m.min(16)).filter(|i| mask >> i & 1 == 1).collect();
                if cancelling && cheat_pos.len() < 2 {
                    continue;
                }
                let (sub2, kinds) = tamper_shares::<C>(&shares, &other, &signers, &cheat_pos, cancelling, &mut rng);
                let (cheaters, dz) = model::<C>(&shares, &sub2);
                if cheaters.is_empty() {
                    continue;
                }
                ctx.eval(&format!("{triple},{class_name},cheaters,{m},{mask:b},{kinds:?}"), true);
                ctx.label("cheaters");
                judge_with::<C>(
                    ctx,
                    &package,
                    &sub2,
                    &tpk,
                    &|md| frost::aggregate_custom(&package, &sub2, &tpk, md),
                    &|| C::tr_aggregate_with_tweak(&package, &sub2, &keys.pubkeys, root_ref).unwrap(),
                    &cheaters,
                    dz,
                    &msg,
                    &format!("{desc}; cheaters(pos)={cheat_pos:?} kinds={kinds:?}"),
                    "C18",
                )?;
            }
        }
    }

    // ---- one signer computes its share with the opposite sign on its own nonces (skips / wrongly applies the BIP-340
    // nonce negation): z -/+ 2(d + rho*e); both values are wrong shares of exactly that signer
    {
        let evk = crate::props::c03::even_vk::<C>(&qvk);
        if let Ok(bfl) = frost::compute_binding_factor_list(&package, &evk, &[]) {
            let pos = rng.below(m as u64) as usize;
            let id = signers[pos];
            let rho = bfl.get(&id).and_then(|b| sc_from_bytes::<C>(&b.serialize()));
            let d = sc_from_bytes::<C>(&nonces[&id].hiding().serialize());
            let e = sc_from_bytes::<C>(&nonces[&id].binding().serialize());
            if let (Some(rho), Some(d), Some(e)) = (rho, d, e) {
                let k = d + rho * e;
                let h = crate::props::c04::share_scalar::<C>(&shares[&id]);
                for (kind, x) in [("minus-2k", h - k - k), ("plus-2k", h + k + k)] {
                    if x == h {
                        continue;
                    }
                    let mut sub2 = shares.clone();
                    sub2.insert(id, crate::props::c04::share_from::<C>(x));
                    let (cheaters, dz) = model::<C>(&shares, &sub2);
                    ctx.eval(&format!("{triple},{class_name},nonce-sign-flipped,{m},{pos},{kind}"), true);
                    ctx.label("nonce-sign-flipped");
                    judge_with::<C>(
                        ctx,
                        &package,
                        &sub2,
                        &tpk,
                        &|md| frost::aggregate_custom(&package, &sub2, &tpk, md),
                        &|| C::tr_aggregate_with_tweak(&package, &sub2, &keys.pubkeys, root_ref).unwrap(),
                        &cheaters,
                        dz,
                        &msg,
                        &format!("{desc}; signer #{pos} submits its share {kind} (own nonces with the opposite sign)"),
                        "C18",
                    )?;
                }
            }
        }
    }

    // ---- key generation outputs the key-path-only tweaked key, and plain signing with it is BIP-340 valid
    if let Some(run) = &keys.dkg {
        let exp = expected_from_run::<C>(ctx, run, &keys.ids)?;
        ensure!(ctx, pvk.to_element() == exp.group_key, "C18/dkg-key-not-key-path-only-tweak", "DKG group key is not the key-path-only tweak of the summed commitments ({desc})");
    }
    {
        let sess = run_session::<C>(&keys.kps, &signers, &msg, rng.next(), "C18")?;
        match frost::aggregate(&sess.package, &sess.shares, &keys.pubkeys) {
            Ok(s) => {
                let b = sig_bytes::<C>(&s)?;
                ensure!(ctx, C::independent_verify(&pb, &msg, &b) == Some(true), "C18/plain-signature-not-bip340", "plain (untweaked) signature is not BIP-340 valid under x(group key) ({desc})");
            }
            Err(e) => ctx.fail("C18/plain-aggregate-failed", format!("plain aggregate failed: {e:?} ({desc})"))?,
        }
    }

    // ---- the output key is fixed at key generation: after a share refresh (trusted dealer or distributed) the same
    // participants still produce BIP-340 signatures for the SAME BIP-341 output key
    if shape.n <= 8 {
        let dkg_refresh = case.seed & 1 == 1;
        let rname = if dkg_refresh { "distributed" } else { "dealer" };
        let mut k2 = Keys { shape: keys.shape, ids: keys.ids.clone(), kps: keys.kps.clone(), pubkeys: keys.pubkeys.clone(), secret_shares: None, signing_key: None, dkg: None, source: keys.source };
        refresh_all::<C>(&mut k2, dkg_refresh, rng.next(), "C18")?;
        ctx.eval(&format!("{triple},{class_name},after-{rname}-refresh,{},{}", shape.n, shape.t), true);
        ctx.label(&format!("after-refresh:{rname}"));
        ensure!(ctx, *k2.pubkeys.verifying_key() == pvk, "C18/refresh-changes-group-key", "the group key changed in a {rname} refresh ({desc})");
        let (nonces, comms) = commit_all::<C>(&k2.kps, &signers, rng.next());
        let package = SigningPackage::new(comms, &msg);
        let mut shares = BTreeMap::new();
        for id in &signers {
            match C::tr_sign_with_tweak(&package, &nonces[id], &k2.kps[id], root_ref).unwrap() {
                Ok(s) => {
                    shares.insert(*id, s);
                }
                Err(e) => return ctx.fail("C18/honest-sign-failed", format!("sign_with_tweak failed after a {rname} refresh: {e:?} ({desc})")),
            }
        }
        match C::tr_aggregate_with_tweak(&package, &shares, &k2.pubkeys, root_ref).unwrap() {
            Ok(s) => {
                let b = sig_bytes::<C>(&s)?;
                ensure!(ctx, C::independent_verify(&qkey, &msg, &b) == Some(true), "C18/not-bip340-valid-under-output-key", "after a {rname} refresh the signature is not BIP-340 valid under the BIP-341 output key fixed at key generation ({desc})");
            }
            Err(e) => ctx.fail("C18/honest-aggregate-failed", format!("aggregate_with_tweak failed after a {rname} refresh: {e:?} ({desc})"))?,
        }
    }
    Ok(())
}
