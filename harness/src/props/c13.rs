//! C13 — protocol state saved between rounds resumes to the identical outcome.

use crate::common::*;
use crate::engine::*;
use crate::props::c10::{dkg_refresh_inputs, dkg_refresh_rounds, refresh_part1_tape};
use crate::suites::*;
use crate::tape::{Sm, Tape};
use crate::{dispatch, ensure};
use frost_core as frost;
use frost_core::keys::dkg::{self, round1, round2};
use frost_core::keys::refresh;
use frost_core::keys::repairable::{repair_share_part1, repair_share_part2, repair_share_part3, Delta, Sigma};
use frost_core::keys::{KeyPackage, PublicKeyPackage, SecretShare};
use frost_core::round1::{SigningCommitments, SigningNonces};
use frost_core::round2::SignatureShare;
use frost_core::SigningPackage;
use proptest::prelude::*;
use serde::{Deserialize, Serialize};
use std::collections::BTreeMap;

pub struct C13;

#[derive(Clone, Debug, Serialize, Deserialize)]
pub struct Case {
    /// 0 DKG, 1 DKG refresh, 2 dealer refresh, 3 signing (commit / preprocess), 4 repair
    pub protocol: u8,
    pub shape: Shape,
    pub ids: IdSpec,
    /// which participant is interrupted (index selector)
    pub who: u16,
    pub msg: MsgSpec,
    pub seed: u64,
}

pub const PROTOCOLS: [&str; 5] = ["dkg", "dkg-refresh", "dealer-refresh", "signing", "repair"];

impl Property for C13 {
    type Case = Case;
    fn id(&self) -> &'static str {
        "C13"
    }
    fn level(&self) -> &'static str {
        "fault_enumeration"
    }
    fn rule(&self) -> String {
        "case = (suite, protocol in {DKG, DKG refresh, dealer refresh, signing incl. preprocess batches, repair}, n, t, identifier style, \
         interrupted participant, seeds). Inside each case EVERY subset of the participant's round boundaries (after part 1, after part 2, \
         after obtaining the key package, after committing to nonces, ...) is taken as the set of crash points x both encodings (postcard, \
         JSON): at each chosen boundary the whole local state is encoded, dropped and decoded; all later outputs must be byte-identical to \
         the uninterrupted execution with the same tapes. One evaluation per (case, boundary subset, encoding). non-trivial = anything \
         but 'DKG after part 1 / part 2 of a 3-of-5 run in postcard'; distinct = distinct (suite, protocol, n, t, boundary subset, \
         encoding, id style) tuples. Thorough adds real process restarts (state written to files, continued by a fresh process)"
            .into()
    }
    fn assumptions(&self) -> Vec<String> {
        vec![
            "determinism: parts 2/3, sign and aggregate draw no randomness; part 1 / commit use the same recorded tape in both executions".into(),
            "'local state' = the secret package / nonces / key package / public key package and the peer packages received so far".into(),
        ]
    }
    fn plan(&self, suite: SuiteId, tier: Tier) -> Vec<(u32, u32)> {
        let per = match (tier, suite.slow()) {
            (Tier::Quick, false) => 14,
            (Tier::Quick, true) => 3,
            (Tier::Thorough, false) => 300,
            (Tier::Thorough, true) => 50,
        };
        (0..5).map(|s| (s, per)).collect()
    }
    fn chunk(&self, suite: SuiteId) -> u32 {
        if suite.slow() { 1 } else { 4 }
    }
    fn max_shrink_iters(&self) -> u32 {
        64
    }
    fn strategy(&self, suite: SuiteId, tier: Tier, stratum: u32) -> BoxedStrategy<Case> {
        let protocol = stratum as u8;
        let nmax = match (tier, suite.slow()) {
            (Tier::Quick, false) => 6,
            (Tier::Quick, true) => 4,
            (Tier::Thorough, false) => 9,
            (Tier::Thorough, true) => 5,
        };
        (shape_strategy(nmax), idspec_strategy(None), any::<u16>(), msg_short_strategy(), any::<u64>())
            .prop_map(move |(shape, ids, who, msg, seed)| Case { protocol, shape, ids, who, msg, seed })
            .boxed()
    }
    fn required_labels(&self, tier: Tier) -> Vec<(String, u64)> {
        let m = tier.pick(30, 300);
        let mut v: Vec<(String, u64)> = PROTOCOLS.iter().map(|p| (format!("protocol:{p}"), m)).collect();
        v.push(("enc:json".into(), m * 5));
        v.push(("enc:postcard".into(), m * 5));
        v.push(("boundaries>=2".into(), m * 5));
        v.push(("preprocess-batch".into(), tier.pick(10, 100)));
        v.push(("t=n".into(), m));
        v.push(("large-state".into(), 6));
        v.push(("fieldwise".into(), m));
        v
    }
    fn check(&self, suite: SuiteId, case: &Case, ctx: &mut Ctx) -> CheckResult {
        dispatch!(suite, check(case, ctx))
    }
    fn extra(&self, tier: Tier, seed: u64, _known: &Known, out: &mut ExtraOut) {
        if tier == Tier::Thorough {
            crate::props::c13_restart::restart_stage(seed, out);
        }
    }
}

// ---------------------------------------------------------------------------------------------
// persistence of every kind of local state

pub trait Persist: Sized {
    fn enc(&self, json: bool) -> Result<Vec<u8>, String>;
    fn dec(b: &[u8], json: bool) -> Result<Self, String>;
}
macro_rules! persist_pkg {
    ($($T:ty),*) => {$(
        impl<C: Suite> Persist for $T {
            fn enc(&self, json: bool) -> Result<Vec<u8>, String> {
                if json { serde_json::to_vec(self).map_err(|e| e.to_string()) } else { self.serialize().map_err(|e| format!("{e:?}")) }
            }
            fn dec(b: &[u8], json: bool) -> Result<Self, String> {
                if json { std::str::from_utf8(b).map_err(|e| e.to_string()).and_then(json_all_routes) } else { <$T>::deserialize(b).map_err(|e| format!("{e:?}")) }
            }
        }
    )*};
}
persist_pkg!(
    round1::SecretPackage<C>,
    round1::Package<C>,
    round2::SecretPackage<C>,
    round2::Package<C>,
    KeyPackage<C>,
    PublicKeyPackage<C>,
    SecretShare<C>,
    SigningNonces<C>,
    SigningCommitments<C>,
    SigningPackage<C>
);
macro_rules! persist_prim {
    ($($T:ty),*) => {$(
        impl<C: Suite> Persist for $T {
            fn enc(&self, json: bool) -> Result<Vec<u8>, String> {
                if json { serde_json::to_vec(self).map_err(|e| e.to_string()) } else { Ok(self.serialize()) }
            }
            fn dec(b: &[u8], json: bool) -> Result<Self, String> {
                if json { std::str::from_utf8(b).map_err(|e| e.to_string()).and_then(json_all_routes) } else { <$T>::deserialize(b).map_err(|e| format!("{e:?}")) }
            }
        }
    )*};
}
persist_prim!(Delta<C>, Sigma<C>, SignatureShare<C>);

impl<K: Ord + Copy, V: Persist> Persist for BTreeMap<K, V>
where
    K: Persist,
{
    fn enc(&self, json: bool) -> Result<Vec<u8>, String> {
        // a simple length-prefixed container around the members' own encodings
        let mut out = Vec::new();
        for (k, v) in self {
            for part in [k.enc(json)?, v.enc(json)?] {
                out.extend_from_slice(&(part.len() as u32).to_le_bytes());
                out.extend_from_slice(&part);
            }
        }
        Ok(out)
    }
    fn dec(b: &[u8], json: bool) -> Result<Self, String> {
        let mut m = BTreeMap::new();
        let mut pos = 0;
        let take = |pos: &mut usize| -> Result<&[u8], String> {
            let l = u32::from_le_bytes(b.get(*pos..*pos + 4).ok_or("container")?.try_into().unwrap()) as usize;
            *pos += 4;
            let s = b.get(*pos..*pos + l).ok_or("container")?;
            *pos += l;
            Ok(s)
        };
        while pos < b.len() {
            let k = K::dec(take(&mut pos)?, json)?;
            let v = V::dec(take(&mut pos)?, json)?;
            m.insert(k, v);
        }
        Ok(m)
    }
}
impl<C: Suite> Persist for Id<C> {
    fn enc(&self, json: bool) -> Result<Vec<u8>, String> {
        if json { serde_json::to_vec(self).map_err(|e| e.to_string()) } else { Ok(self.serialize()) }
    }
    fn dec(b: &[u8], json: bool) -> Result<Self, String> {
        if json { std::str::from_utf8(b).map_err(|e| e.to_string()).and_then(json_all_routes) } else { Id::<C>::deserialize(b).map_err(|e| format!("{e:?}")) }
    }
}
impl<V: Persist> Persist for Vec<V> {
    fn enc(&self, json: bool) -> Result<Vec<u8>, String> {
        let mut out = Vec::new();
        for v in self {
            let part = v.enc(json)?;
            out.extend_from_slice(&(part.len() as u32).to_le_bytes());
            out.extend_from_slice(&part);
        }
        Ok(out)
    }
    fn dec(b: &[u8], json: bool) -> Result<Self, String> {
        let mut v = Vec::new();
        let mut pos = 0;
        while pos < b.len() {
            let l = u32::from_le_bytes(b.get(pos..pos + 4).ok_or("container")?.try_into().unwrap()) as usize;
            pos += 4;
            v.push(V::dec(b.get(pos..pos + l).ok_or("container")?, json)?);
            pos += l;
        }
        Ok(v)
    }
}

/// encode, drop, decode when `on`
pub fn cycle<T: Persist>(v: T, on: bool, json: bool, what: &str) -> Result<T, Failure> {
    if !on {
        return Ok(v);
    }
    let bytes = v.enc(json).map_err(|e| Failure { key: "C13/state-does-not-encode".into(), msg: format!("{what} cannot be saved ({}): {e}", if json { "JSON" } else { "postcard" }) })?;
    drop(v);
    // thorough tier: the bytes may go through a file written by / read from another process
    let bytes = crate::props::c13_restart::hook(&bytes).map_err(|e| inconclusive(format!("restart state file: {e}")))?;
    T::dec(&bytes, json).map_err(|e| Failure { key: "C13/saved-state-does-not-decode".into(), msg: format!("saved {what} cannot be restored ({}): {e}", if json { "JSON" } else { "postcard" }) })
}

fn bytes_of<T: Persist>(v: &T) -> Result<Vec<u8>, Failure> {
    v.enc(false).map_err(|e| Failure { key: "C13/output-does-not-encode".into(), msg: e })
}

/// result of one execution: named outputs in order
type Outputs = Vec<(String, Vec<u8>)>;

fn compare(ctx: &mut Ctx, base: &Outputs, got: &Outputs, desc: &str) -> CheckResult {
    ensure!(ctx, base.len() == got.len(), "C13/resumed-run-differs", "resumed run produced {} outputs, uninterrupted {} ({desc})", got.len(), base.len());
    for ((n0, b0), (n1, b1)) in base.iter().zip(got) {
        ensure!(ctx, n0 == n1 && b0 == b1, "C13/resumed-run-differs", "output '{n0}' differs after resuming from saved state ({desc})");
    }
    Ok(())
}

/// t = n is allowed everywhere except in the repair protocol (which needs a helper set next to the repaired participant)
fn shape_for(case: &Case) -> Shape {
    let n = case.shape.n.max(if case.protocol % 5 == 4 { 3 } else { 2 });
    let tmax = if case.protocol % 5 == 4 { n - 1 } else { n };
    Shape { n, t: case.shape.t.clamp(2, tmax) }
}

fn check<C: Suite>(case: &Case, ctx: &mut Ctx) -> CheckResult {
    let proto = (case.protocol % 5) as usize;
    let shape = shape_for(case);
    ctx.label(&format!("protocol:{}", PROTOCOLS[proto]));
    if shape.t == shape.n {
        ctx.label("t=n");
    }
    // ---- large local state (one case in twelve): with a big threshold the secret packages are several kilobytes.
    // They must be storable and come back identical through both encodings (the full protocol with such a group
    // would cost minutes; equality of the restored state stands in for "every subsequent step gives the same outputs").
    if case.seed % 12 == 5 {
        large_state::<C>(case, ctx)?;
    }
    // ---- field-by-field persistence ("custom serialization": every field stored on its own, the value rebuilt with
    // new()), one case in three
    if case.seed % 3 == 1 {
        fieldwise::<C>(case, ctx)?;
    }
    let nb = [4usize, 4, 3, 3, 5][proto];
    let mut base: Option<Outputs> = None;
    for json in [false, true] {
        for mask in 0u32..(1 << nb) {
            if mask == 0 && json {
                continue;
            }
            let desc = format!("{} n={} t={} ids={} participant-sel={} boundaries={:0w$b} encoding={}", PROTOCOLS[proto], shape.n, shape.t, case.ids.style.name(), case.who, mask, if json { "JSON" } else { "postcard" }, w = nb);
            let on = |b: usize| mask >> b & 1 == 1;
            let out = match proto {
                0 => run_dkg::<C>(case, shape, &on, json),
                1 => run_dkg_refresh::<C>(case, shape, &on, json),
                2 => run_dealer_refresh::<C>(case, shape, &on, json),
                3 => run_signing::<C>(ctx, case, shape, &on, json),
                _ => run_repair::<C>(case, shape, &on, json),
            };
            let out = match out {
                Ok(o) => o,
                Err(f) if f.key == INCONCLUSIVE => return Err(f),
                Err(f) => {
                    if mask == 0 {
                        return Err(Failure { key: "C13/uninterrupted-run-fails".into(), msg: format!("{} ({desc})", f.msg) });
                    }
                    ctx.fail(&f.key, format!("{} ({desc})", f.msg))?;
                    continue;
                }
            };
            if mask == 0 {
                base = Some(out);
                continue;
            }
            let trivial = proto == 0 && !json && (mask == 1 || mask == 2) && shape.n == 5 && shape.t == 3;
            ctx.eval(&format!("{},{},{},{mask:b},{json},{}", PROTOCOLS[proto], shape.n, shape.t, case.ids.style.name()), !trivial);
            ctx.label(if json { "enc:json" } else { "enc:postcard" });
            if mask.count_ones() >= 2 {
                ctx.label("boundaries>=2");
            }
            compare(ctx, base.as_ref().unwrap(), &out, &desc)?;
        }
    }
    Ok(())
}

/// one execution of a case with the given boundary mask (no ctx; used by the restart stage)
pub fn run_one(suite: SuiteId, case: &Case, mask: u32, json: bool) -> Result<Vec<(String, Vec<u8>)>, Failure> {
    fn go<C: Suite>(case: &Case, mask: u32, json: bool) -> Result<Vec<(String, Vec<u8>)>, Failure> {
        let shape = shape_for(case);
        let on = |b: usize| mask >> b & 1 == 1;
        let known = Known::default();
        let mut py = crate::pyref::PySlot::default();
        let mut ctx = Ctx { prop: "C13", suite: C::SID, tier: Tier::Quick, known: &known, stats: Stats::default(), py: &mut py, strict: true };
        match case.protocol % 5 {
            0 => run_dkg::<C>(case, shape, &on, json),
            1 => run_dkg_refresh::<C>(case, shape, &on, json),
            2 => run_dealer_refresh::<C>(case, shape, &on, json),
            3 => run_signing::<C>(&mut ctx, case, shape, &on, json),
            _ => run_repair::<C>(case, shape, &on, json),
        }
    }
    dispatch!(suite, go(case, mask, json))
}

fn wrap<T>(r: Result<T, frost::Error<impl Suite>>, what: &str) -> Result<T, Failure> {
    r.map_err(|e| Failure { key: "C13/restored-state-rejected".into(), msg: format!("{what} failed: {e:?}") })
}

/// sign with the given key package and nonces after both (and the received package) went through persistence
fn sign_tail<C: Suite>(
    out: &mut Outputs,
    kp: KeyPackage<C>,
    pk: PublicKeyPackage<C>,
    all_kps: &BTreeMap<Id<C>, KeyPackage<C>>,
    me: Id<C>,
    t: usize,
    msg: &[u8],
    seed: u64,
    on_commit: bool,
    json: bool,
) -> Result<(), Failure> {
    // signer set: me + t-1 others (lowest identifiers among the others)
    let mut signers: Vec<Id<C>> = all_kps.keys().filter(|i| **i != me).take(t - 1).copied().collect();
    signers.push(me);
    signers.sort();
    let mut kk = all_kps.clone();
    kk.insert(me, kp.clone());
    let (mut nonces, comms) = commit_all::<C>(&kk, &signers, seed);
    let package = SigningPackage::new(comms, msg);
    // boundary: after committing to nonces (nonces + key package + the package as received)
    let my_nonces = cycle(nonces.remove(&me).unwrap(), on_commit, json, "signing nonces")?;
    let kp = cycle(kp, on_commit, json, "key package")?;
    let package_rx = cycle(package.clone(), on_commit, json, "signing package")?;
    let share = wrap(frost::round2::sign(&package_rx, &my_nonces, &kp), "sign with restored nonces")?;
    out.push(("signature share".into(), share.serialize()));
    let mut shares = BTreeMap::new();
    for id in &signers {
        if *id == me {
            shares.insert(*id, share);
        } else {
            shares.insert(*id, wrap(frost::round2::sign(&package, &nonces[id], &kk[id]), "peer sign")?);
        }
    }
    let sig = wrap(frost::aggregate(&package, &shares, &pk), "aggregate with restored public key package")?;
    out.push(("signature".into(), sig_bytes::<C>(&sig)?));
    Ok(())
}

fn run_dkg<C: Suite>(case: &Case, shape: Shape, on: &dyn Fn(usize) -> bool, json: bool) -> Result<Outputs, Failure> {
    let n = shape.n as usize;
    let idv = make_ids::<C>(case.ids, n);
    let run = dkg_rounds::<C>(shape, &idv, case.seed, "C13")?;
    let k = idx(case.who, n);
    let me = idv[k];
    let mut out: Outputs = Vec::new();
    // the interrupted participant re-executes its own chain with the same tape
    let (sec1, pkg1) = wrap(dkg::part1::<C, _>(me, shape.n, shape.t, dkg_part1_tape(case.seed, k)), "part1")?;
    out.push(("round1 package".into(), bytes_of(&pkg1)?));
    let sec1 = cycle(sec1, on(0), json, "round-one secret package")?; // boundary 0: after part 1
    let (r1, r2) = dkg_inputs_for(&run, &me);
    let r1_rx = cycle(r1, on(0), json, "received round-one packages")?;
    let (sec2, out2) = wrap(dkg::part2(sec1, &r1_rx), "part2 with restored state")?;
    out.push(("round2 packages".into(), bytes_of(&out2)?));
    let sec2 = cycle(sec2, on(1), json, "round-two secret package")?; // boundary 1: after part 2
    let r1_rx = cycle(r1_rx, on(1), json, "received round-one packages")?;
    let r2_rx = cycle(r2, on(1), json, "received round-two packages")?;
    let _sent = cycle(out2, on(1), json, "outgoing round-two packages")?;
    let (kp, pk) = wrap(dkg::part3(&sec2, &r1_rx, &r2_rx), "part3 with restored state")?;
    out.push(("key package".into(), bytes_of(&kp)?));
    out.push(("public key package".into(), bytes_of(&pk)?));
    let kp = cycle(kp, on(2), json, "key package")?; // boundary 2: after obtaining the key package
    let pk = cycle(pk, on(2), json, "public key package")?;
    // other participants' key packages from the uninterrupted run
    let mut all = BTreeMap::new();
    for id in &idv {
        let (a, b) = dkg_inputs_for(&run, id);
        all.insert(*id, wrap(dkg::part3(&run.r2_secret[id], &a, &b), "peer part3")?.0);
    }
    sign_tail::<C>(&mut out, kp, pk, &all, me, shape.t as usize, &case.msg.bytes(), case.seed ^ 0x13, on(3), json)?;
    Ok(out)
}

fn run_dkg_refresh<C: Suite>(case: &Case, shape: Shape, on: &dyn Fn(usize) -> bool, json: bool) -> Result<Outputs, Failure> {
    let n = shape.n as usize;
    let keys = dealer_keys::<C>(shape, case.ids, KeySource::Dealer, case.seed, "C13")?;
    // one participant is removed when possible
    let remaining: Vec<Id<C>> = if n > shape.t as usize { keys.ids[..n - 1].to_vec() } else { keys.ids.clone() };
    let m = remaining.len();
    let rr = dkg_refresh_rounds::<C>(&remaining, shape.t, case.seed ^ 0x4e, "C13")?;
    let k = idx(case.who, m);
    let me = remaining[k];
    let mut out: Outputs = Vec::new();
    let (sec1, pkg1) = wrap(refresh::refresh_dkg_part1::<C, _>(me, m as u16, shape.t, refresh_part1_tape(case.seed ^ 0x4e, k)), "refresh part1")?;
    out.push(("refresh round1 package".into(), bytes_of(&pkg1)?));
    let sec1 = cycle(sec1, on(0), json, "refresh round-one secret package")?;
    let old_kp = cycle(keys.kps[&me].clone(), on(0), json, "old key package")?;
    let old_pk = cycle(keys.pubkeys.clone(), on(0), json, "old public key package")?;
    let (r1, r2) = dkg_refresh_inputs(&rr, &me);
    let r1_rx = cycle(r1, on(0), json, "received refresh round-one packages")?;
    let (sec2, out2) = wrap(refresh::refresh_dkg_part2(sec1, &r1_rx), "refresh part2 with restored state")?;
    out.push(("refresh round2 packages".into(), bytes_of(&out2)?));
    let sec2 = cycle(sec2, on(1), json, "refresh round-two secret package")?;
    let r1_rx = cycle(r1_rx, on(1), json, "received refresh round-one packages")?;
    let r2_rx = cycle(r2, on(1), json, "received refresh round-two packages")?;
    let old_kp = cycle(old_kp, on(1), json, "old key package")?;
    let old_pk = cycle(old_pk, on(1), json, "old public key package")?;
    let (kp, pk) = wrap(refresh::refresh_dkg_shares(&sec2, &r1_rx, &r2_rx, old_pk, old_kp), "refresh_dkg_shares with restored state")?;
    out.push(("refreshed key package".into(), bytes_of(&kp)?));
    out.push(("refreshed public key package".into(), bytes_of(&pk)?));
    let kp = cycle(kp, on(2), json, "refreshed key package")?;
    let pk = cycle(pk, on(2), json, "refreshed public key package")?;
    let mut all = BTreeMap::new();
    for id in &remaining {
        let (a, b) = dkg_refresh_inputs(&rr, id);
        all.insert(*id, wrap(refresh::refresh_dkg_shares(&rr.r2_secret[id], &a, &b, keys.pubkeys.clone(), keys.kps[id].clone()), "peer refresh")?.0);
    }
    sign_tail::<C>(&mut out, kp, pk, &all, me, shape.t as usize, &case.msg.bytes(), case.seed ^ 0x14, on(3), json)?;
    Ok(out)
}

fn run_dealer_refresh<C: Suite>(case: &Case, shape: Shape, on: &dyn Fn(usize) -> bool, json: bool) -> Result<Outputs, Failure> {
    let n = shape.n as usize;
    let keys = dealer_keys::<C>(shape, case.ids, KeySource::Dealer, case.seed, "C13")?;
    let remaining: Vec<Id<C>> = if n > shape.t as usize { keys.ids[1..].to_vec() } else { keys.ids.clone() };
    let k = idx(case.who, remaining.len());
    let me = remaining[k];
    let mut out: Outputs = Vec::new();
    let (shares, new_pk) = wrap(refresh::compute_refreshing_shares::<C, _>(keys.pubkeys.clone(), &remaining, &mut Tape::random(case.seed ^ 0xd4)), "compute_refreshing_shares")?;
    // boundary 0: the participant holds its old key package and the refreshing share it received
    let old_kp = cycle(keys.kps[&me].clone(), on(0), json, "old key package")?;
    let by_id = |id: &Id<C>| shares.iter().find(|s| s.identifier() == id).cloned().ok_or_else(|| inconclusive("no refreshing share for a remaining participant"));
    let rshare = cycle(by_id(&me)?, on(0), json, "received refreshing share")?;
    let new_pk = cycle(new_pk, on(0), json, "received refreshed public key package")?;
    let kp = wrap(refresh::refresh_share(rshare, &old_kp), "refresh_share with restored state")?;
    out.push(("refreshed key package".into(), bytes_of(&kp)?));
    let kp = cycle(kp, on(1), json, "refreshed key package")?;
    let new_pk = cycle(new_pk, on(1), json, "refreshed public key package")?;
    let mut all = BTreeMap::new();
    for id in remaining.iter() {
        all.insert(*id, wrap(refresh::refresh_share(by_id(id)?, &keys.kps[id]), "peer refresh_share")?);
    }
    sign_tail::<C>(&mut out, kp, new_pk, &all, me, shape.t as usize, &case.msg.bytes(), case.seed ^ 0x15, on(2), json)?;
    Ok(out)
}

fn run_signing<C: Suite>(ctx: &mut Ctx, case: &Case, shape: Shape, on: &dyn Fn(usize) -> bool, json: bool) -> Result<Outputs, Failure> {
    let n = shape.n as usize;
    let src = if case.seed & 1 == 0 { KeySource::Dealer } else { KeySource::Dkg };
    let keys = make_keys::<C>(shape, case.ids, src, case.seed, "C13")?;
    let k = idx(case.who, n);
    let me = keys.ids[k];
    let mut out: Outputs = Vec::new();
    // boundary 0: key package and public key package at rest
    let kp = cycle(keys.kps[&me].clone(), on(0), json, "key package")?;
    let pk = cycle(keys.pubkeys.clone(), on(0), json, "public key package")?;
    // a preprocessed batch: every nonce of the batch is stored, one is used later
    let batch = 1 + (case.seed >> 8) % 4;
    ctx.label("preprocess-batch");
    let (nonces_v, comms_v) = frost::round1::preprocess::<C, _>(batch as u8, kp.signing_share(), &mut Tape::random(case.seed ^ 0x16));
    out.push(("batch commitments".into(), bytes_of(&comms_v)?));
    // boundary 1: after committing (whole batch saved)
    let nonces_v = cycle(nonces_v, on(1), json, "preprocessed signing nonces")?;
    let comms_v = cycle(comms_v, on(1), json, "published commitments")?;
    let use_i = ((case.seed >> 16) % batch) as usize;
    let mut signers: Vec<Id<C>> = keys.ids.iter().filter(|i| **i != me).take(shape.t as usize - 1).copied().collect();
    signers.push(me);
    signers.sort();
    let (mut nonces, mut comms) = commit_all::<C>(&keys.kps, &signers, case.seed ^ 0x17);
    nonces.remove(&me);
    comms.insert(me, comms_v[use_i]);
    let msg = case.msg.bytes();
    let package = SigningPackage::new(comms, &msg);
    // boundary 2: the package has been received and is stored next to the nonces
    let package_rx = cycle(package.clone(), on(2), json, "signing package")?;
    let my_nonces = cycle(nonces_v[use_i].clone(), on(2), json, "signing nonces")?;
    let kp = cycle(kp, on(2), json, "key package")?;
    let share = wrap(frost::round2::sign(&package_rx, &my_nonces, &kp), "sign with restored nonces")?;
    out.push(("signature share".into(), share.serialize()));
    let mut shares = BTreeMap::new();
    shares.insert(me, share);
    for id in &signers {
        if *id != me {
            shares.insert(*id, wrap(frost::round2::sign(&package, &nonces[id], &keys.kps[id]), "peer sign")?);
        }
    }
    let sig = wrap(frost::aggregate(&package, &shares, &pk), "aggregate with restored public key package")?;
    out.push(("signature".into(), sig_bytes::<C>(&sig)?));
    Ok(out)
}

fn run_repair<C: Suite>(case: &Case, shape: Shape, on: &dyn Fn(usize) -> bool, json: bool) -> Result<Outputs, Failure> {
    let n = shape.n as usize;
    let t = shape.t as usize;
    let keys = dealer_keys::<C>(shape, case.ids, KeySource::Dealer, case.seed, "C13")?;
    let target = keys.ids[n - 1];
    let mut rng = Sm(case.seed ^ 0x18);
    let hsize = t + rng.below((n - 1 - t) as u64 + 1) as usize;
    let helpers: Vec<Id<C>> = keys.ids[..hsize].to_vec();
    let k = idx(case.who, hsize);
    let me = helpers[k];
    let mut out: Outputs = Vec::new();
    // all helpers' deltas (tapes fixed)
    let mut deltas: BTreeMap<Id<C>, BTreeMap<Id<C>, Delta<C>>> = BTreeMap::new();
    for (j, h) in helpers.iter().enumerate() {
        if *h == me {
            continue;
        }
        deltas.insert(*h, wrap(repair_share_part1::<C, _>(&helpers, &keys.kps[h], &mut Tape::random(case.seed ^ (0x19 + j as u64)), target), "peer repair part1")?);
    }
    // boundary 0: helper's key package at rest
    let kp = cycle(keys.kps[&me].clone(), on(0), json, "helper key package")?;
    let mine = wrap(repair_share_part1::<C, _>(&helpers, &kp, &mut Tape::random(case.seed ^ (0x19 + k as u64)), target), "repair part1 with restored key package")?;
    out.push(("deltas".into(), bytes_of(&mine)?));
    // boundary 1: after part 1 (own delta kept, received deltas stored)
    let mine = cycle(mine, on(1), json, "outgoing deltas")?;
    deltas.insert(me, mine);
    let recv: Vec<Delta<C>> = helpers.iter().map(|i| deltas[i][&me]).collect();
    let recv = cycle(recv, on(1), json, "received deltas")?;
    let sigma = repair_share_part2::<C>(&recv);
    out.push(("sigma".into(), sigma.serialize()));
    // boundary 2: sigma stored before sending
    let sigma = cycle(sigma, on(2), json, "sigma")?;
    // the repaired participant: collects sigmas (boundary 3), then part 3, stores the key package (boundary 4)
    let mut sigmas: Vec<Sigma<C>> = Vec::new();
    for j in &helpers {
        if *j == me {
            sigmas.push(sigma);
        } else {
            let r: Vec<Delta<C>> = helpers.iter().map(|i| deltas[i][j]).collect();
            sigmas.push(repair_share_part2::<C>(&r));
        }
    }
    let sigmas = cycle(sigmas, on(3), json, "received sigmas")?;
    let pk = cycle(keys.pubkeys.clone(), on(3), json, "public key package")?;
    let kp_new = wrap(repair_share_part3::<C>(&sigmas, target, &pk), "repair part3 with restored state")?;
    out.push(("repaired key package".into(), bytes_of(&kp_new)?));
    let kp_new = cycle(kp_new, on(4), json, "repaired key package")?;
    sign_tail::<C>(&mut out, kp_new, pk, &keys.kps, target, t, &case.msg.bytes(), case.seed ^ 0x1a, on(4), json)?;
    Ok(out)
}


fn large_state<C: Suite>(case: &Case, ctx: &mut Ctx) -> CheckResult {
    let t = [64u16, 70, 127, 200][(case.seed >> 8) as usize % 4];
    let t = if C::SID.slow() { t.min(70) } else { t };
    let me = make_ids::<C>(case.ids, 1)[0];
    ctx.eval(&format!("large-state,{t}"), true);
    ctx.label("large-state");
    fn same<T: Persist + PartialEq>(ctx: &mut Ctx, what: &str, v: &T, t: u16) -> CheckResult {
        for json in [false, true] {
            let enc = if json { "JSON" } else { "postcard" };
            let b = match v.enc(json) {
                Ok(b) => b,
                Err(e) => return ctx.fail("C13/state-does-not-encode", format!("{what} of a group with threshold {t} cannot be stored ({enc}): {e}")),
            };
            match T::dec(&b, json) {
                Ok(v2) => {
                    ensure!(ctx, v2 == *v && v2.enc(false).ok() == v.enc(false).ok(), "C13/restored-state-differs", "{what} (threshold {t}) comes back different from storage ({enc}, {} bytes)", b.len());
                }
                Err(e) => return ctx.fail("C13/saved-state-does-not-decode", format!("{what} of a group with threshold {t} does not decode from its own {enc} encoding ({} bytes): {e}", b.len())),
            }
        }
        Ok(())
    }
    let (sec, pkg) = frost::keys::dkg::part1::<C, _>(me, t, t, Tape::random(case.seed ^ 0x1a46)).map_err(|e| inconclusive(format!("part1 t={t}: {e:?}")))?;
    same(ctx, "the round-one secret package of key generation", &sec, t)?;
    same(ctx, "the round-one package of key generation", &pkg, t)?;
    let (sec, pkg) = frost::keys::refresh::refresh_dkg_part1::<C, _>(me, t, t, Tape::random(case.seed ^ 0x1a47)).map_err(|e| inconclusive(format!("refresh part1 t={t}: {e:?}")))?;
    same(ctx, "the round-one secret package of the distributed refresh", &sec, t)?;
    same(ctx, "the round-one package of the distributed refresh", &pkg, t)?;
    let (shares, _) = frost::keys::generate_with_dealer::<C, _>(t + 1, t, frost::keys::IdentifierList::Default, &mut Tape::random(case.seed ^ 0x1a48)).map_err(|e| inconclusive(format!("dealer t={t}: {e:?}")))?;
    let sh = shares.values().next().unwrap();
    same(ctx, "a dealer's secret share", sh, t)?;
    Ok(())
}


fn fieldwise<C: Suite>(case: &Case, ctx: &mut Ctx) -> CheckResult {
    use frost_core::keys::{SigningShare, VerifiableSecretSharingCommitment, VerifyingShare};
    let shape = Shape { n: 3, t: 2 + (case.seed >> 5) as u16 % 2 };
    let idv = {
        let mut v = make_ids::<C>(case.ids, 3);
        v.sort();
        v
    };
    let run = dkg_rounds::<C>(shape, &idv, case.seed ^ 0xf1e1d, "C13")?;
    let me = idv[(case.who as usize) % 3];
    ctx.eval("fieldwise", true);
    ctx.label("fieldwise");
    let bad = |what: &str, e: String| Failure { key: "C13/saved-state-does-not-decode".into(), msg: format!("field-by-field storage: {what} does not come back: {e}") };
    let re_id = |i: &Id<C>| Id::<C>::deserialize(&i.serialize()).map_err(|e| bad("an identifier", format!("{e:?}")));
    let re_comm = |c: &VerifiableSecretSharingCommitment<C>| -> Result<VerifiableSecretSharingCommitment<C>, Failure> {
        let w = c.serialize_whole().map_err(|e| Failure { key: "C13/state-does-not-encode".into(), msg: format!("commitment: {e:?}") })?;
        VerifiableSecretSharingCommitment::<C>::deserialize_whole(&w).map_err(|e| bad("the commitment written with serialize_whole()", format!("{e:?}")))
    };
    let re_sc = |x: &Sc<C>| sc_from_bytes::<C>(&sc_bytes::<C>(x)).ok_or_else(|| bad("a scalar", "canonical bytes rejected".into()));
    // round-one secret package
    {
        let s = &run.r1_secret[&me];
        let coeffs: Result<Vec<Sc<C>>, Failure> = s.coefficients().iter().map(|c| re_sc(c)).collect();
        let r = round1::SecretPackage::<C>::new(re_id(s.identifier())?, coeffs?, re_comm(s.commitment())?, *s.min_signers(), *s.max_signers());
        ensure!(ctx, r == *s && r.serialize().ok() == s.serialize().ok(), "C13/restored-state-differs", "round-one secret package rebuilt field by field differs from the original");
    }
    // round-two secret package
    {
        let s = &run.r2_secret[&me];
        let r = round2::SecretPackage::<C>::new(re_id(s.identifier())?, re_comm(s.commitment())?, re_sc(&s.secret_share())?, *s.min_signers(), *s.max_signers());
        ensure!(ctx, r == *s && r.serialize().ok() == s.serialize().ok(), "C13/restored-state-differs", "round-two secret package rebuilt field by field differs from the original");
        // ... and part3 continues from it to the same outputs
        let (r1, r2) = dkg_inputs_for(&run, &me);
        let a = dkg::part3(s, &r1, &r2).map(|(k, p)| (k.serialize().ok(), p.serialize().ok()));
        let b = dkg::part3(&r, &r1, &r2).map(|(k, p)| (k.serialize().ok(), p.serialize().ok()));
        ensure!(ctx, a.is_ok() && a.as_ref().ok() == b.as_ref().ok(), "C13/resumed-run-differs", "part3 from the round-two secret package rebuilt field by field gives other outputs than from the in-memory one");
    }
    // dealer share and key package
    {
        let keys = dealer_keys::<C>(shape, case.ids, KeySource::Dealer, case.seed ^ 0xf1e1e, "C13")?;
        let id = keys.ids[(case.who as usize) % 3];
        let sh = &keys.secret_shares.as_ref().unwrap()[&id];
        let r = SecretShare::<C>::new(re_id(sh.identifier())?, SigningShare::<C>::deserialize(&sh.signing_share().serialize()).map_err(|e| bad("a signing share", format!("{e:?}")))?, re_comm(sh.commitment())?);
        ensure!(ctx, r == *sh && r.serialize().ok() == sh.serialize().ok(), "C13/restored-state-differs", "secret share rebuilt field by field differs from the original");
        let kp = &keys.kps[&id];
        let vs = VerifyingShare::<C>::deserialize(&kp.verifying_share().serialize().map_err(|e| bad("verifying share", format!("{e:?}")))?).map_err(|e| bad("a verifying share", format!("{e:?}")))?;
        let vkey = frost::VerifyingKey::<C>::deserialize(&kp.verifying_key().serialize().map_err(|e| bad("verifying key", format!("{e:?}")))?).map_err(|e| bad("a verifying key", format!("{e:?}")))?;
        let r = KeyPackage::<C>::new(re_id(kp.identifier())?, SigningShare::<C>::deserialize(&kp.signing_share().serialize()).map_err(|e| bad("a signing share", format!("{e:?}")))?, vs, vkey, *kp.min_signers());
        ensure!(ctx, r == *kp && r.serialize().ok() == kp.serialize().ok(), "C13/restored-state-differs", "key package rebuilt field by field differs from the original");
    }
    Ok(())
}
