//! C13, thorough tier: real process restarts. Process A runs the participant's chain and writes the
//! encoded local state of ONE boundary to files; process B (fresh) runs the chain again but at that
//! boundary replaces its state by what it decodes from A's files; the parent compares B's outputs
//! with its own uninterrupted execution.

use crate::engine::*;
use crate::props::c13::{Case, PROTOCOLS};
use crate::suites::{SuiteId, ALL_SUITES};
use crate::tape::Sm;
use serde_json::json;
use std::cell::RefCell;
use std::path::PathBuf;
use std::process::Command;

#[derive(Clone)]
pub enum Mode {
    InMemory,
    Save { dir: PathBuf, n: usize },
    Load { dir: PathBuf, n: usize },
}
thread_local! {
    pub static MODE: RefCell<Mode> = const { RefCell::new(Mode::InMemory) };
}

/// called by `cycle` for every state item at an active boundary
pub fn hook(encoded: &[u8]) -> Result<Vec<u8>, String> {
    MODE.with(|m| {
        let mut m = m.borrow_mut();
        match &mut *m {
            Mode::InMemory => Ok(encoded.to_vec()),
            Mode::Save { dir, n } => {
                std::fs::write(dir.join(format!("state-{n}.bin")), encoded).map_err(|e| e.to_string())?;
                *n += 1;
                Ok(encoded.to_vec())
            }
            Mode::Load { dir, n } => {
                let b = std::fs::read(dir.join(format!("state-{n}.bin"))).map_err(|e| format!("state file missing: {e}"))?;
                *n += 1;
                Ok(b)
            }
        }
    })
}

/// `fv c13-restart <save|load> <dir> <suite> <boundary> <json-enc 0|1> <case-json>`; prints outputs as JSON
pub fn child_main(args: &[String]) -> i32 {
    if args.len() < 6 {
        return 2;
    }
    let dir = PathBuf::from(&args[1]);
    let suite = match SuiteId::from_name(&args[2]) {
        Some(s) => s,
        None => return 2,
    };
    let boundary: u32 = args[3].parse().unwrap_or(0);
    let json_enc = args[4] == "1";
    let case: Case = match serde_json::from_str(&args[5]) {
        Ok(c) => c,
        Err(_) => return 2,
    };
    MODE.with(|m| {
        *m.borrow_mut() = if args[0] == "save" { Mode::Save { dir: dir.clone(), n: 0 } } else { Mode::Load { dir: dir.clone(), n: 0 } }
    });
    match crate::props::c13::run_one(suite, &case, 1 << boundary, json_enc) {
        Ok(out) => {
            let v: Vec<(String, String)> = out.into_iter().map(|(k, b)| (k, hex::encode(b))).collect();
            println!("{}", serde_json::to_string(&v).unwrap());
            0
        }
        Err(f) => {
            println!("{}", serde_json::to_string(&json!({"error": f.msg, "key": f.key})).unwrap());
            1
        }
    }
}

pub fn restart_stage(seed: u64, out: &mut ExtraOut) {
    let exe = match std::env::current_exe() {
        Ok(e) => e,
        Err(e) => {
            out.inconclusive.push(format!("cannot locate own executable for restarts: {e}"));
            return;
        }
    };
    let root = PathBuf::from(format!("{VERIF_DIR}/harness/target/c13-restart-{}", std::process::id()));
    let _ = std::fs::remove_dir_all(&root);
    let mut rng = Sm(seed ^ 0xc13_4e57);
    let mut count = 0u64;
    for round in 0..40u32 {
        for (si, suite) in ALL_SUITES.iter().enumerate() {
            if suite.slow() && round % 4 != 0 {
                continue;
            }
            let protocol = ((round as usize + si) % 5) as u8;
            let nb = [4u32, 4, 3, 3, 5][protocol as usize];
            let boundary = rng.below(nb as u64) as u32;
            let json_enc = rng.below(2) == 1;
            let n = 3 + rng.below(3) as u16;
            let t = 2 + rng.below((n - 2) as u64) as u16;
            let case = Case {
                protocol,
                shape: crate::common::Shape { n, t },
                ids: crate::common::IdSpec { style: crate::common::ID_STYLES[rng.below(6) as usize], seed: rng.next() },
                who: rng.next() as u16,
                msg: crate::common::MsgSpec::Short(rng.bytes(5)),
                seed: rng.next(),
            };
            let cj = serde_json::to_string(&case).unwrap();
            let dir = root.join(format!("{round}-{}", suite.name()));
            let _ = std::fs::create_dir_all(&dir);
            let base = match crate::props::c13::run_one(*suite, &case, 0, false) {
                Ok(o) => o,
                Err(f) => {
                    out.inconclusive.push(format!("uninterrupted run failed in restart stage: {}", f.msg));
                    continue;
                }
            };
            let run = |mode: &str| {
                Command::new(&exe)
                    .args(["c13-restart", mode, dir.to_str().unwrap(), suite.name(), &boundary.to_string(), if json_enc { "1" } else { "0" }, &cj])
                    .output()
            };
            let a = run("save");
            let b = run("load");
            let desc = format!("{} {} n={n} t={t} boundary {boundary} encoding {}", suite.name(), PROTOCOLS[protocol as usize], if json_enc { "JSON" } else { "postcard" });
            let viol = |key: &str, msg: String| Violation {
                suite: suite.name().to_string(),
                failure: Failure { key: key.to_string(), msg },
                case: serde_json::to_value(&case).unwrap(),
                replay_kind: "case".into(),
            };
            match (a, b) {
                (Ok(a), Ok(b)) if a.status.code() == Some(0) && b.status.code() == Some(0) => {
                    let got: Vec<(String, String)> = serde_json::from_slice(b.stdout.split(|c| *c == b'\n').next().unwrap_or(&[])).unwrap_or_default();
                    let want: Vec<(String, String)> = base.iter().map(|(k, v)| (k.clone(), hex::encode(v))).collect();
                    if got != want {
                        out.violations.push(viol("C13/restarted-run-differs", format!("outputs after a real process restart differ from the uninterrupted run ({desc})")));
                    }
                }
                (Ok(a), Ok(b)) => {
                    let code = (a.status.code(), b.status.code());
                    if code.0 == Some(1) || code.1 == Some(1) {
                        out.violations.push(viol(
                            "C13/restarted-run-fails",
                            format!("saving or restoring state across a process restart failed ({desc}): {} {}", String::from_utf8_lossy(&a.stdout).trim(), String::from_utf8_lossy(&b.stdout).trim()),
                        ));
                    } else {
                        out.inconclusive.push(format!("restart child exited with {code:?} ({desc})"));
                    }
                }
                _ => out.inconclusive.push(format!("cannot spawn restart child ({desc})")),
            }
            count += 1;
            out.stats.evaluations += 1;
            out.stats.nontrivial += 1;
            out.stats.distinct.insert(fnv(&format!("restart|{desc}|{}", case.seed)));
            *out.stats.labels.entry("process-restart".into()).or_default() += 1;
            if out.samples.len() < 2 {
                out.samples.push(json!({"stage": "process-restart", "suite": suite.name(), "boundary": boundary, "json": json_enc, "case": case}));
            }
            let _ = std::fs::remove_dir_all(&dir);
        }
    }
    let _ = std::fs::remove_dir_all(&root);
    out.notes.insert("process_restarts".into(), json!(count));
}
