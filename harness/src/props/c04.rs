//! C04 — aggregation never releases an invalid signature and blames exactly the cheaters.

use crate::common::*;
use crate::engine::*;
use crate::props::c03::modes;
use crate::suites::*;
use crate::tape::Sm;
use crate::{dispatch, ensure};
use frost_core as frost;
use frost_core::keys::PublicKeyPackage;
use frost_core::round2::SignatureShare;
use frost_core::{Error, SigningPackage};
use proptest::prelude::*;
use serde::{Deserialize, Serialize};
use std::collections::{BTreeMap, BTreeSet};

pub struct C04;

#[derive(Clone, Debug, Serialize, Deserialize)]
pub struct Case {
    pub shape: Shape,
    pub ids: IdSpec,
    pub source: KeySource,
    pub subset: SubsetSpec,
    pub msg: MsgSpec,
    /// Taproot: wanted parity of the group key Y (0 even, 1 odd) and of the group commitment Y
    pub want_key_odd: bool,
    pub want_r_odd: bool,
    pub seed: u64,
}

pub const KINDS: [&str; 8] = ["plus1", "minus1", "negated", "zero", "random", "other-signer", "other-session", "swapped"];

impl Property for C04 {
    type Case = Case;
    fn id(&self) -> &'static str {
        "C04"
    }
    fn level(&self) -> &'static str {
        "fault_enumeration"
    }
    fn rule(&self) -> String {
        "per generated signing session (suite, n, t, identifier style, key source, signer set S, message; Taproot: the four (key parity, \
         commitment parity) combinations forced by re-seeding) the cheater set ranges over EVERY non-empty subset of S when |S| <= 5 \
         (sampled subsets above), each cheater gets a fault kind from {+1, -1, negated, zero, random, another signer's share, own share \
         from another session, two signers' shares swapped}, every single signer additionally with its share recomputed for the opposite \
         nonce sign (z -/+ 2(d + rho e)), plus a cancelling variant (errors summing to zero) for every subset of size \
         >= 2; each (session, cheater set, variant) is run through Disabled / FirstCheater / AllCheaters aggregation and the standalone \
         share verification and compared with the reference model on scalars; per session additionally a re-randomized session \
         (frost-rerandomized aggregate / aggregate_custom) with every single cheater, everybody and sampled subsets, and for the Taproot suite \
         a session signed and aggregated with the BIP-341 tweak (aggregate_with_tweak, root present / absent) likewise. One evaluation per (session, cheater set, variant). \
         non-trivial = anything but the suite's two cases (two lowest cheat by +1; highest cheats by +1); distinct = distinct \
         (suite, n, t, |S|, cheater positions, kinds, cancelling?, parities) tuples"
            .into()
    }
    fn assumptions(&self) -> Vec<String> {
        vec![
            "reference model: cheaters = {i | submitted_i != honest_i}, delta = sum(submitted - honest); honest shares are the ones the library's own sign() produced (their correctness is C01/C02)".into(),
            "an altered share verifying by chance is impossible (the share equation has one solution)".into(),
        ]
    }
    fn plan(&self, suite: SuiteId, tier: Tier) -> Vec<(u32, u32)> {
        let per = match (tier, suite.slow()) {
            (Tier::Quick, false) => 6,
            (Tier::Quick, true) => 2,
            (Tier::Thorough, false) => 80,
            (Tier::Thorough, true) => 16,
        };
        // strata: 4 parity combos x 3 size classes of S (|S| in {2,3}, {4,5}, larger)
        (0..12).map(|s| (s, per)).collect()
    }
    fn chunk(&self, suite: SuiteId) -> u32 {
        if suite.slow() { 2 } else { 6 }
    }
    fn strategy(&self, suite: SuiteId, tier: Tier, stratum: u32) -> BoxedStrategy<Case> {
        let want_key_odd = stratum & 1 == 1;
        let want_r_odd = stratum & 2 == 2;
        let size_class = stratum / 4;
        let (nlo, nhi): (u16, u16) = match size_class {
            0 => (2, 3),
            1 => (4, 5),
            _ => (6, if tier == Tier::Quick { if suite.slow() { 6 } else { 9 } } else if suite.slow() { 8 } else { 14 }),
        };
        let src = prop_oneof![3 => Just(KeySource::Dealer), 1 => Just(KeySource::Dkg), 1 => Just(KeySource::DealerRefreshed), 1 => Just(KeySource::Repaired), 1 => Just(KeySource::History(0))];
        (nlo..=nhi, any::<u16>(), idspec_strategy(None), src, any::<u64>(), msg_short_strategy(), any::<u64>())
            .prop_map(move |(n, ti, ids, source, sseed, msg, seed)| {
                // |S| = n here (size class is about the signer set): t <= n, signers = all n or a t..n subset
                let t = 2 + idx(ti, (n - 1) as usize) as u16;
                let n_total = if source.uses_dkg() { n } else { n + (sseed % 3) as u16 };
                Case {
                    shape: Shape { n: n_total, t },
                    ids,
                    source,
                    subset: SubsetSpec { class: SubsetClass::Scattered, extra: extra_for((n - t) as usize, (n_total - t + 1) as usize), seed: sseed },
                    msg,
                    want_key_odd,
                    want_r_odd,
                    seed,
                }
            })
            .boxed()
    }
    fn required_labels(&self, tier: Tier) -> Vec<(String, u64)> {
        let m = tier.pick(30, 300);
        let mut v: Vec<(String, u64)> = vec![
            ("cancelling".into(), m),
            ("cheaters>=2".into(), m),
            ("cheaters=all".into(), m),
            ("all-shares-valid-but-sum-invalid".into(), m),
            ("rerandomized".into(), m),
            ("kind:nonce-sign-flipped".into(), m),
            ("tr:tweaked-aggregation".into(), m),
            ("tr:key-odd,R-odd".into(), 5),
            ("tr:key-odd,R-even".into(), 5),
            ("tr:key-even,R-odd".into(), 5),
            ("tr:key-even,R-even".into(), 5),
        ];
        for k in KINDS {
            v.push((format!("kind:{k}"), m));
        }
        v
    }
    fn check(&self, suite: SuiteId, case: &Case, ctx: &mut Ctx) -> CheckResult {
        dispatch!(suite, check(case, ctx))
    }
}

pub struct Forced<C: Suite> {
    pub keys: Keys<C>,
    pub sess: Session<C>,
    pub other: Session<C>,
    pub key_odd: bool,
    pub r_odd: bool,
}

/// Build keys and a session; for Taproot re-seed until the wanted parities occur (constructed,
/// expected <= 4 tries each).
pub fn forced_session<C: Suite>(
    shape: Shape,
    ids: IdSpec,
    source: KeySource,
    subset: SubsetSpec,
    msg: &[u8],
    want_key_odd: bool,
    want_r_odd: bool,
    seed: u64,
    key: &str,
) -> Result<Forced<C>, Failure> {
    let mut kseed = seed;
    let mut keys = make_keys::<C>(shape, ids, source, kseed, key)?;
    if C::SID.taproot() {
        let mut tries = 0;
        while y_is_odd::<C>(&keys.pubkeys.verifying_key().to_element()) != want_key_odd && tries < 64 {
            kseed = kseed.wrapping_add(0x1000_0001);
            keys = make_keys::<C>(shape, ids, source, kseed, key)?;
            tries += 1;
        }
    }
    let sub = make_subset(shape.n as usize, shape.t as usize, subset);
    let signers: Vec<Id<C>> = sub.iter().map(|i| keys.ids[*i]).collect();
    let mut sseed = seed ^ 0x5e55;
    let mut sess = run_session::<C>(&keys.kps, &signers, msg, sseed, key)?;
    let mut r_odd = false;
    if C::SID.taproot() {
        let mut tries = 0;
        loop {
            r_odd = group_commitment_odd::<C>(&sess.package, keys.pubkeys.verifying_key())?;
            if r_odd == want_r_odd || tries >= 64 {
                break;
            }
            sseed = sseed.wrapping_add(0x2000_0003);
            sess = run_session::<C>(&keys.kps, &signers, msg, sseed, key)?;
            tries += 1;
        }
    }
    let other = run_session::<C>(&keys.kps, &signers, msg, sseed ^ 0x07e5_7, key)?;
    let key_odd = C::SID.taproot() && y_is_odd::<C>(&keys.pubkeys.verifying_key().to_element());
    Ok(Forced { keys, sess, other, key_odd, r_odd })
}

pub fn group_commitment_odd<C: Suite>(package: &SigningPackage<C>, vk: &frost::VerifyingKey<C>) -> Result<bool, Failure> {
    let evk = crate::props::c03::even_vk::<C>(vk);
    let bfl = frost::compute_binding_factor_list(package, &evk, &[]).map_err(|e| inconclusive(format!("bfl {e:?}")))?;
    let gc = frost::compute_group_commitment(package, &bfl).map_err(|e| inconclusive(format!("gc {e:?}")))?;
    Ok(y_is_odd::<C>(&gc.to_element()))
}

pub fn share_scalar<C: Suite>(s: &SignatureShare<C>) -> Sc<C> {
    sc_from_bytes::<C>(&s.serialize()).expect("share bytes decode")
}
pub fn share_from<C: Suite>(x: Sc<C>) -> SignatureShare<C> {
    SignatureShare::<C>::deserialize(&sc_bytes::<C>(&x)).expect("scalar bytes decode as share")
}

fn check<C: Suite>(case: &Case, ctx: &mut Ctx) -> CheckResult {
    let shape = Shape { n: case.shape.n.max(2), t: case.shape.t.clamp(2, case.shape.n.max(2)) };
    let msg = case.msg.bytes();
    let f = forced_session::<C>(shape, case.ids, case.source, case.subset, &msg, case.want_key_odd, case.want_r_odd, case.seed, "C04")?;
    let parity = format!("key-{},R-{}", if f.key_odd { "odd" } else { "even" }, if f.r_odd { "odd" } else { "even" });
    if C::SID.taproot() {
        ctx.label(&format!("tr:{parity}"));
    }
    let signers = f.sess.signers.clone();
    let m = signers.len();
    let mut rng = Sm(case.seed ^ 0xc04);

    // cheater subsets: all non-empty subsets when |S| <= 5 (quick) / 6 (thorough), sampled above
    let lim = if ctx.tier == Tier::Quick { 5 } else { 6 };
    let masks: Vec<u32> = if m <= lim {
        (1u32..(1 << m)).collect()
    } else {
        let mut v: Vec<u32> = Vec::new();
        for i in 0..m {
            v.push(1 << i); // every single cheater position
        }
        v.push((1u32 << m) - 1); // everybody
        v.push(1 | (1 << (m - 1))); // lowest and highest
        v.push(0b11); // two lowest
        for _ in 0..24 {
            let x = (rng.next() as u32) & ((1u32 << m) - 1);
            if x != 0 {
                v.push(x);
            }
        }
        v.sort();
        v.dedup();
        v
    };

    for mask in masks {
        let cheat_pos: Vec<usize> = (0..m).filter(|i| mask >> i & 1 == 1).collect();
        for cancelling in [false, true] {
            if cancelling && cheat_pos.len() < 2 {
                continue;
            }
            let (submitted, kinds) = tamper_shares::<C>(&f.sess.shares, &f.other.shares, &signers, &cheat_pos, cancelling, &mut rng);
            // the model
            let mut cheaters: BTreeSet<Id<C>> = BTreeSet::new();
            let mut delta = zero::<C>();
            for id in &signers {
                let s = share_scalar::<C>(&submitted[id]);
                let h = share_scalar::<C>(&f.sess.shares[id]);
                if s != h {
                    cheaters.insert(*id);
                    delta = delta + (s - h);
                }
            }
            if cheaters.is_empty() {
                // e.g. "negated" of a zero share; astronomically unlikely, not a case
                ctx.discard();
                continue;
            }
            let trivial = !cancelling
                && kinds.iter().all(|k| *k == "plus1")
                && (cheat_pos == vec![0, 1] || cheat_pos == vec![m - 1])
                && shape.n == 5
                && shape.t == 3;
            ctx.eval(&format!("{},{},{},{:b},{:?},{}", shape.n, shape.t, m, mask, kinds, parity), !trivial);
            for k in &kinds {
                if *k == "cancelling" {
                    ctx.label("cancelling");
                } else {
                    ctx.label(&format!("kind:{k}"));
                }
            }
            if cheaters.len() >= 2 {
                ctx.label("cheaters>=2");
            }
            if cheaters.len() == m {
                ctx.label("cheaters=all");
            }
            let desc = format!("n={} t={} |S|={} cheaters(pos)={:?} kinds={:?} {}", shape.n, shape.t, m, cheat_pos, kinds, parity);
            judge::<C>(ctx, &f.sess.package, &submitted, &f.keys.pubkeys, &cheaters, delta == zero::<C>(), &msg, &desc, "C04")?;
        }
    }

    // ---- a share computed with the opposite sign on the signer's own nonces: z -/+ 2(d + rho*e). One of the two is what a
    // signer obtains who skips (or wrongly applies) the nonce negation of BIP-340; both are wrong shares of one cheater.
    {
        let evk = crate::props::c03::even_vk::<C>(f.keys.pubkeys.verifying_key());
        if let Ok(bfl) = frost::compute_binding_factor_list(&f.sess.package, &evk, &[]) {
            for (pos, id) in signers.iter().enumerate().take(8) {
                let rho = bfl.get(id).and_then(|b| sc_from_bytes::<C>(&b.serialize()));
                let d = sc_from_bytes::<C>(&f.sess.nonces[id].hiding().serialize());
                let e = sc_from_bytes::<C>(&f.sess.nonces[id].binding().serialize());
                let (Some(rho), Some(d), Some(e)) = (rho, d, e) else { continue };
                let k = d + rho * e;
                let h = share_scalar::<C>(&f.sess.shares[id]);
                for (kind, x) in [("minus-2k", h - k - k), ("plus-2k", h + k + k)] {
                    if x == h {
                        continue;
                    }
                    let mut submitted = f.sess.shares.clone();
                    submitted.insert(*id, share_from::<C>(x));
                    let cheaters: BTreeSet<Id<C>> = [*id].into_iter().collect();
                    ctx.eval(&format!("{},{},{},nonce-sign-flipped,{pos},{kind},{}", shape.n, shape.t, m, parity), true);
                    ctx.label("kind:nonce-sign-flipped");
                    let desc = format!("n={} t={} |S|={} cheater(pos)={pos} share {kind} (k = d + rho*e: own nonces with the opposite sign) {}", shape.n, shape.t, m, parity);
                    judge::<C>(ctx, &f.sess.package, &submitted, &f.keys.pubkeys, &cheaters, false, &msg, &desc, "C04")?;
                }
            }
        }
    }

    // ---- the re-randomized aggregation entry points (frost-rerandomized) obey the same model: a session signed with
    // a randomizer, cheater sets = every single signer, everybody, a few sampled subsets (+ cancelling)
    {
        use frost_rerandomized as rr;
        let vk = *f.keys.pubkeys.verifying_key();
        let (nonces, comms) = commit_all::<C>(&f.keys.kps, &signers, rng.next());
        let package = SigningPackage::new(comms, &msg);
        let alpha = if rng.below(8) == 0 { zero::<C>() } else { sc_rand_nonzero::<C>(rng.next()) };
        let params = rr::RandomizedParams::from_randomizer(&vk, rr::Randomizer::from_scalar(alpha));
        let rpk = crate::props::c17::rand_pubkeys::<C>(&f.keys.pubkeys, alpha);
        let mut sessions: Vec<BTreeMap<Id<C>, SignatureShare<C>>> = Vec::new();
        for (pk, nn) in [(&package, &nonces)] {
            let mut sh = BTreeMap::new();
            for id in &signers {
                #[allow(deprecated)]
                match rr::sign::<C>(pk, &nn[id], &f.keys.kps[id], *params.randomizer()) {
                    Ok(s) => {
                        sh.insert(*id, s);
                    }
                    Err(e) => return ctx.fail("C04/rerandomized-honest-sign-failed", format!("re-randomized signing failed for an honest signer: {e:?}")),
                }
            }
            sessions.push(sh);
        }
        let shares = &sessions[0];
        let mut masks: Vec<u32> = (0..m.min(20)).map(|i| 1u32 << i).collect();
        masks.push(((1u64 << m.min(20)) - 1) as u32);
        for _ in 0..4 {
            let x = (rng.next() as u32) & (((1u64 << m.min(20)) - 1) as u32);
            if x != 0 {
                masks.push(x);
            }
        }
        for mask in masks {
            let cheat_pos: Vec<usize> = (0..m.min(20)).filter(|i| mask >> i & 1 == 1).collect();
            for cancelling in [false, true] {
                if cancelling && cheat_pos.len() < 2 {
                    continue;
                }
                // "other-session" faults take the share from the plain (not re-randomized) session of the same signers
                let (sub2, kinds) = tamper_shares::<C>(shares, &f.sess.shares, &signers, &cheat_pos, cancelling, &mut rng);
                let (cheaters, dz) = model::<C>(shares, &sub2);
                if cheaters.is_empty() {
                    ctx.discard();
                    continue;
                }
                ctx.eval(&format!("{},{},{},rerandomized,{:b},{:?},{}", shape.n, shape.t, m, mask, kinds, alpha == zero::<C>()), true);
                ctx.label("rerandomized");
                let desc = format!("re-randomized session (randomizer {}), n={} t={} |S|={} cheaters(pos)={:?} kinds={:?}", if alpha == zero::<C>() { "zero" } else { "non-zero" }, shape.n, shape.t, m, cheat_pos, kinds);
                judge_with::<C>(
                    ctx,
                    &package,
                    &sub2,
                    &rpk,
                    &|md| rr::aggregate_custom::<C>(&package, &sub2, &f.keys.pubkeys, md, &params),
                    &|| rr::aggregate::<C>(&package, &sub2, &f.keys.pubkeys, &params),
                    &cheaters,
                    dz,
                    &msg,
                    &desc,
                    "C04",
                )?;
            }
        }
    }

    // ---- Taproot: the tweaked aggregation entry point (aggregate_with_tweak, with and without a script-tree root, for
    // internal keys of either parity) obeys the same model: every single cheater, everybody, sampled subsets
    if C::SID.taproot() {
        let root: Option<Vec<u8>> = if rng.below(2) == 1 { Some(rng.bytes(32)) } else { None };
        let root_ref = root.as_deref();
        let tpk = C::tr_tweak_pubkeys(&f.keys.pubkeys, root_ref);
        let (nonces, comms) = commit_all::<C>(&f.keys.kps, &signers, rng.next());
        let package = SigningPackage::new(comms, &msg);
        let mut shares = BTreeMap::new();
        for id in &signers {
            match C::tr_sign_with_tweak(&package, &nonces[id], &f.keys.kps[id], root_ref).unwrap() {
                Ok(s) => {
                    shares.insert(*id, s);
                }
                Err(e) => return ctx.fail("C04/tweaked-honest-sign-failed", format!("sign_with_tweak failed for an honest signer: {e:?}")),
            }
        }
        let mut masks: Vec<u32> = (0..m.min(20)).map(|i| 1u32 << i).collect();
        masks.push(((1u64 << m.min(20)) - 1) as u32);
        for _ in 0..3 {
            let x = (rng.next() as u32) & (((1u64 << m.min(20)) - 1) as u32);
            if x != 0 {
                masks.push(x);
            }
        }
        for mask in masks {
            let cheat_pos: Vec<usize> = (0..m.min(20)).filter(|i| mask >> i & 1 == 1).collect();
            for cancelling in [false, true] {
                if cancelling && cheat_pos.len() < 2 {
                    continue;
                }
                // "other-session" faults take the share from the untweaked session of the same signers
                let (sub2, kinds) = tamper_shares::<C>(&shares, &f.sess.shares, &signers, &cheat_pos, cancelling, &mut rng);
                let (cheaters, dz) = model::<C>(&shares, &sub2);
                if cheaters.is_empty() {
                    ctx.discard();
                    continue;
                }
                ctx.eval(&format!("{},{},{},tweaked,{},{:b},{:?},{}", shape.n, shape.t, m, root.is_some(), mask, kinds, parity), true);
                ctx.label("tr:tweaked-aggregation");
                let desc = format!("Taproot session signed and aggregated with the tweak (root {}), internal {parity}, n={} t={} |S|={} cheaters(pos)={:?} kinds={:?}", if root.is_some() { "present" } else { "absent" }, shape.n, shape.t, m, cheat_pos, kinds);
                judge_with::<C>(
                    ctx,
                    &package,
                    &sub2,
                    &tpk,
                    &|md| frost::aggregate_custom(&package, &sub2, &tpk, md),
                    &|| C::tr_aggregate_with_tweak(&package, &sub2, &f.keys.pubkeys, root_ref).unwrap(),
                    &cheaters,
                    dz,
                    &msg,
                    &desc,
                    "C04",
                )?;
            }
        }
    }

    // "whenever aggregation returns a signature, that signature verifies" also when NO share is individually
    // wrong but the sum cannot be valid: t-1 holders whose key material understates the threshold, coordinator
    // package without / with an understated threshold (every share then satisfies its own verification equation)
    if shape.t >= 2 {
        let k = shape.t as usize - 1;
        let few: Vec<Id<C>> = f.keys.ids[..k].to_vec();
        let (nonces, comms) = commit_all::<C>(&f.keys.kps, &few, rng.next());
        let package = SigningPackage::new(comms, &msg);
        let mut shares = BTreeMap::new();
        for id in &few {
            let kp = &f.keys.kps[id];
            let lying = frost::keys::KeyPackage::new(*kp.identifier(), *kp.signing_share(), *kp.verifying_share(), *kp.verifying_key(), k as u16);
            if let Ok(s) = frost::round2::sign(&package, &nonces[id], &lying) {
                shares.insert(*id, s);
            }
        }
        if shares.len() == k {
            let vk = *f.keys.pubkeys.verifying_key();
            for pk_min in [None, Some(k as u16)] {
                let pubs = PublicKeyPackage::<C>::new(f.keys.pubkeys.verifying_shares().clone(), vk, pk_min);
                for (name, mode) in modes() {
                    ctx.eval(&format!("{},{},sub-threshold-all-shares-individually-valid,{name},{}", shape.n, shape.t, pk_min.is_some()), true);
                    ctx.label("all-shares-valid-but-sum-invalid");
                    if let Ok(sig) = frost::aggregate_custom(&package, &shares, &pubs, mode) {
                        ensure!(ctx, vk.verify(&msg, &sig).is_ok(), "C04/invalid-signature-released", "aggregate_custom({name}) returned a signature that does not verify: {k} = t-1 signers, every share individually valid, public package min_signers {:?} (n={} t={})", pk_min, shape.n, shape.t);
                    }
                }
            }
        }
    }
    Ok(())
}

/// Build the submitted share map for a cheater set (positions in `signers`): a random fault kind per
/// cheater, or — `cancelling` — random errors that sum to zero.
pub fn tamper_shares<C: Suite>(
    honest: &BTreeMap<Id<C>, SignatureShare<C>>,
    other_session: &BTreeMap<Id<C>, SignatureShare<C>>,
    signers: &[Id<C>],
    cheat_pos: &[usize],
    cancelling: bool,
    rng: &mut Sm,
) -> (BTreeMap<Id<C>, SignatureShare<C>>, Vec<&'static str>) {
    let m = signers.len();
    let mut submitted = honest.clone();
    let mut kinds: Vec<&'static str> = Vec::new();
    if cancelling {
        let mut acc = zero::<C>();
        for (j, p) in cheat_pos.iter().enumerate() {
            let id = signers[*p];
            let d = if j + 1 < cheat_pos.len() {
                let d = sc_rand_nonzero::<C>(rng.next());
                acc = acc + d;
                d
            } else {
                neg::<C>(acc)
            };
            submitted.insert(id, share_from::<C>(share_scalar::<C>(&honest[&id]) + d));
        }
        kinds.push("cancelling");
        return (submitted, kinds);
    }
    let mut j = 0;
    while j < cheat_pos.len() {
        let id = signers[cheat_pos[j]];
        let h = share_scalar::<C>(&honest[&id]);
        let mut kind = KINDS[rng.below(KINDS.len() as u64) as usize];
        if kind == "swapped" && j + 1 >= cheat_pos.len() {
            kind = "plus1";
        }
        if kind == "other-signer" && m < 2 {
            kind = "minus1";
        }
        match kind {
            "plus1" => {
                submitted.insert(id, share_from::<C>(h + one::<C>()));
            }
            "minus1" => {
                submitted.insert(id, share_from::<C>(h - one::<C>()));
            }
            "negated" => {
                submitted.insert(id, share_from::<C>(neg::<C>(h)));
            }
            "zero" => {
                submitted.insert(id, share_from::<C>(zero::<C>()));
            }
            "random" => {
                submitted.insert(id, share_from::<C>(sc_rand::<C>(rng.next())));
            }
            "other-signer" => {
                let o = signers[(cheat_pos[j] + 1 + rng.below(m as u64 - 1) as usize) % m];
                submitted.insert(id, honest[&o]);
            }
            "other-session" => {
                submitted.insert(id, other_session[&id]);
            }
            _ => {
                // swapped: this cheater and the next one exchange their shares
                let id2 = signers[cheat_pos[j + 1]];
                submitted.insert(id, honest[&id2]);
                submitted.insert(id2, honest[&id]);
                j += 1;
            }
        }
        kinds.push(kind);
        j += 1;
    }
    (submitted, kinds)
}

/// the reference model on scalars: (cheaters, delta == 0)
pub fn model<C: Suite>(honest: &BTreeMap<Id<C>, SignatureShare<C>>, submitted: &BTreeMap<Id<C>, SignatureShare<C>>) -> (BTreeSet<Id<C>>, bool) {
    let mut cheaters = BTreeSet::new();
    let mut delta = zero::<C>();
    for (id, s) in submitted {
        let s = share_scalar::<C>(s);
        let h = share_scalar::<C>(&honest[id]);
        if s != h {
            cheaters.insert(*id);
            delta = delta + (s - h);
        }
    }
    (cheaters, delta == zero::<C>())
}

/// compare the three aggregation modes and the standalone share verification with the model
pub fn judge<C: Suite>(
    ctx: &mut Ctx,
    package: &SigningPackage<C>,
    submitted: &BTreeMap<Id<C>, SignatureShare<C>>,
    pubkeys: &PublicKeyPackage<C>,
    cheaters: &BTreeSet<Id<C>>,
    delta_zero: bool,
    msg: &[u8],
    desc: &str,
    p: &str,
) -> CheckResult {
    judge_with::<C>(
        ctx,
        package,
        submitted,
        pubkeys,
        &|mode| frost::aggregate_custom(package, submitted, pubkeys, mode),
        &|| frost::aggregate(package, submitted, pubkeys),
        cheaters,
        delta_zero,
        msg,
        desc,
        p,
    )
}

/// like `judge`, but the aggregation entry points are supplied by the caller (re-randomized / tweaked
/// variants); `pubkeys` is the *effective* public key package (randomized / tweaked) under which the
/// result must verify and against which standalone share verification is run.
pub fn judge_with<C: Suite>(
    ctx: &mut Ctx,
    package: &SigningPackage<C>,
    submitted: &BTreeMap<Id<C>, SignatureShare<C>>,
    pubkeys: &PublicKeyPackage<C>,
    agg: &dyn Fn(frost::CheaterDetection) -> Result<frost::Signature<C>, Error<C>>,
    agg_default: &dyn Fn() -> Result<frost::Signature<C>, Error<C>>,
    cheaters: &BTreeSet<Id<C>>,
    delta_zero: bool,
    msg: &[u8],
    desc: &str,
    p: &str,
) -> CheckResult {
    let vk = *pubkeys.verifying_key();
    for (name, mode) in modes() {
        let r = agg(mode);
        // invariant over all cases: Ok(sig) => sig verifies
        if let Ok(sig) = &r {
            let lib_ok = vk.verify(msg, sig).is_ok();
            let b = sig_bytes::<C>(sig)?;
            let ind = independent_verify::<C>(ctx, &vk, msg, &b, false)?;
            ensure!(ctx, lib_ok && ind != Some(false), &format!("{p}/invalid-signature-released"), "aggregate_custom({name}) returned a signature that does not verify ({desc})");
        }
        if delta_zero {
            ensure!(ctx, r.is_ok(), &format!("{p}/valid-sum-rejected"), "aggregate_custom({name}) failed although the shares sum to the valid response ({desc}): {:?}", r.as_ref().err());
            continue;
        }
        match (name, &r) {
            (_, Ok(_)) => {
                ctx.fail(&format!("{p}/invalid-signature-released"), format!("aggregate_custom({name}) succeeded although the shares do not sum to a valid response ({desc})"))?;
            }
            ("disabled", Err(e)) => {
                ensure!(ctx, matches!(e, Error::InvalidSignature) && e.culprits().is_empty(), &format!("{p}/disabled-mode-report"), "detection disabled must report InvalidSignature and name nobody, got {:?} ({desc})", e);
            }
            ("first", Err(e)) => {
                let want = vec![*cheaters.iter().next().unwrap()];
                let got = e.culprits();
                ensure!(
                    ctx,
                    matches!(e, Error::InvalidSignatureShare { .. }) && got == want,
                    &format!("{p}/first-cheater-wrong"),
                    "FirstCheater must name exactly the lowest cheater {}; got {:?} culprits {:?} ({desc})",
                    id_hex::<C>(&want[0]),
                    e,
                    got.iter().map(id_hex::<C>).collect::<Vec<_>>()
                );
            }
            (_, Err(e)) => {
                let got = e.culprits();
                let set: BTreeSet<Id<C>> = got.iter().copied().collect();
                ensure!(
                    ctx,
                    matches!(e, Error::InvalidSignatureShare { .. }) && set == *cheaters && set.len() == got.len(),
                    &format!("{p}/all-cheaters-wrong"),
                    "AllCheaters must name exactly {:?} without duplicates; got {:?} ({desc})",
                    cheaters.iter().map(id_hex::<C>).collect::<Vec<_>>(),
                    got.iter().map(id_hex::<C>).collect::<Vec<_>>()
                );
            }
        }
    }
    // the default entry point behaves as FirstCheater
    let r = agg_default();
    if delta_zero {
        ensure!(ctx, r.is_ok(), &format!("{p}/valid-sum-rejected"), "aggregate failed although the shares sum to the valid response ({desc})");
    } else {
        match r {
            Ok(_) => ctx.fail(&format!("{p}/invalid-signature-released"), format!("aggregate succeeded with cheaters ({desc})"))?,
            Err(e) => {
                let want = vec![*cheaters.iter().next().unwrap()];
                ensure!(ctx, e.culprits() == want, &format!("{p}/first-cheater-wrong"), "aggregate must name exactly the lowest cheater; got {:?} ({desc})", e);
            }
        }
    }
    // standalone share verification: Ok <=> honest share
    for (id, share) in submitted {
        let vs = match pubkeys.verifying_shares().get(id) {
            Some(v) => *v,
            None => continue,
        };
        let r = frost::verify_signature_share(*id, &vs, share, package, &vk);
        let is_cheater = cheaters.contains(id);
        if is_cheater {
            ensure!(ctx, r.is_err(), &format!("{p}/altered-share-accepted"), "verify_signature_share accepted the altered share of {} ({desc})", id_hex::<C>(id));
            if let Err(e) = &r {
                let c = e.culprits();
                ensure!(ctx, c.is_empty() || c == vec![*id], &format!("{p}/honest-participant-named"), "verify_signature_share named {:?} for the share of {}", c.iter().map(id_hex::<C>).collect::<Vec<_>>(), id_hex::<C>(id));
            }
        } else {
            ensure!(ctx, r.is_ok(), &format!("{p}/honest-share-rejected"), "verify_signature_share rejected the honest share of {} ({desc}): {:?}", id_hex::<C>(id), r);
        }
    }
    Ok(())
}
