//! C17 — re-randomized signing verifies only under the session-bound randomized key.

use crate::common::*;
use crate::engine::*;
use crate::props::c03::modes;
use crate::props::c04::{judge_with, model, tamper_shares};
use crate::suites::*;
use crate::tape::{Sm, Tape};
use crate::{dispatch, ensure};
use frost_core as frost;
use frost_core::keys::{PublicKeyPackage, VerifyingShare};
use frost_core::round1::{NonceCommitment, SigningCommitments};
use frost_core::{Error, SigningPackage, VerifyingKey};
use frost_rerandomized::{self as rr, RandomizedParams, Randomizer};
use proptest::prelude::*;
use serde::{Deserialize, Serialize};
use serde_json::json;
use std::collections::BTreeMap;

pub struct C17;
const HUGE_SET: u32 = 50;

#[derive(Clone, Debug, Serialize, Deserialize)]
pub struct Case {
    pub shape: Shape,
    pub ids: IdSpec,
    pub source: KeySource,
    pub subset: SubsetSpec,
    pub msg: MsgSpec,
    /// 0 seed from new_from_commitments, 1 explicit random randomizer, 2 explicit zero randomizer
    pub mode: u8,
    pub seed: u64,
}

impl Property for C17 {
    type Case = Case;
    fn id(&self) -> &'static str {
        "C17"
    }
    fn level(&self) -> &'static str {
        "exploration"
    }
    fn rule(&self) -> String {
        "case = (suite, n, t, identifier style, key source, signer set, message, randomizer mode in {seed drawn by the coordinator, seed of 0/1/15/16/31/33/64/300 bytes chosen by the coordinator, \
         explicit random randomizer, explicit zero}, seeds). Checked per case: participants' regenerated parameters equal the \
         coordinator's, randomized key = key + alpha*G, signing and aggregation succeed, the signature verifies under the randomized key \
         (library + independent verifier) and not under the original one (alpha != 0); the randomizer changes when the seed (bit flip, \
         truncation, other seed) or ANY single field of ANY commitment / identifier of the commitment set is altered, and matches the \
         reference hash of seed || encoded commitment list; one participant using a tampered seed or package is exactly the culprit; the \
         C04 cheater model (a sampled cheater set incl. cancelling) and the C03 threshold refusals hold under randomization. One \
         evaluation per case plus one per tampering / cheater probe. non-trivial = anything but the single honest 3-of-5 run; distinct = \
         distinct (suite, n, t, |S|, mode, id style, probe descriptor) tuples"
            .into()
    }
    fn assumptions(&self) -> Vec<String> {
        vec![
            "the reference recomputes the randomizer as hash_randomizer(seed || encode_group_commitment_list) with the suite's 'randomizer' domain separation (implementation-family convention, not RFC 9591)".into(),
            "two different (seed, commitment set) inputs hashing to the same randomizer has negligible probability".into(),
        ]
    }
    fn plan(&self, suite: SuiteId, tier: Tier) -> Vec<(u32, u32)> {
        let per = match (tier, suite.slow()) {
            (Tier::Quick, false) => 150,
            (Tier::Quick, true) => 25,
            (Tier::Thorough, false) => 4000,
            (Tier::Thorough, true) => 500,
        };
        // strata: randomizer modes; 3 = seed chosen by the coordinator with an arbitrary length (0, 1, 15, 16, 31, 33, 64, 300 bytes)
        let mut v: Vec<(u32, u32)> = (0..4).map(|s| (s, if s == 3 { per / 2 } else { per })).collect();
        // the randomizer depends on the EXACT commitment set also when the set is huge (65536 + k entries)
        v.push((HUGE_SET, 1));
        v
    }
    fn chunk(&self, suite: SuiteId) -> u32 {
        if suite.slow() { 2 } else { 8 }
    }
    fn strategy(&self, suite: SuiteId, tier: Tier, stratum: u32) -> BoxedStrategy<Case> {
        if stratum == HUGE_SET {
            return (msg_short_strategy(), any::<u64>())
                .prop_map(|(msg, seed)| Case { shape: Shape { n: 3, t: 2 }, ids: IdSpec { style: IdStyle::Default, seed: 0 }, source: KeySource::Dealer, subset: SubsetSpec { class: SubsetClass::Prefix, extra: 0, seed: 0 }, msg, mode: 200, seed })
                .boxed();
        }
        let mode = stratum as u8;
        let nmax = match (tier, suite.slow()) {
            (Tier::Quick, false) => 8,
            (Tier::Quick, true) => 5,
            (Tier::Thorough, false) => 16,
            (Tier::Thorough, true) => 8,
        };
        let src = prop_oneof![4 => Just(KeySource::Dealer), 1 => Just(KeySource::Dkg), 1 => Just(KeySource::DealerRefreshed), 1 => Just(KeySource::Repaired), 1 => Just(KeySource::History(0))];
        (shape_strategy(nmax), idspec_strategy(None), src, subset_strategy(None), msg_short_strategy(), any::<u64>())
            .prop_map(move |(shape, ids, source, subset, msg, seed)| {
                let shape = if source.uses_dkg() { Shape { n: shape.n.min(5), t: shape.t.min(shape.n.min(5)) } } else { shape };
                Case { shape, ids, source, subset, msg, mode, seed }
            })
            .boxed()
    }
    fn required_labels(&self, tier: Tier) -> Vec<(String, u64)> {
        let m = tier.pick(30, 300);
        vec![
            ("mode:seed".into(), m),
            ("mode:explicit".into(), m),
            ("mode:zero".into(), m),
            ("mode:chosen-seed".into(), m / 2),
            ("seed-length:0".into(), 3),
            ("huge-commitment-set".into(), 4),
            ("tamper:seed-bitflip".into(), m),
            ("tamper:commitment".into(), m),
            ("tamper:participant-uses-wrong-seed".into(), m),
            ("cheaters".into(), m),
            ("too-few".into(), m / 2),
        ]
    }
    fn check(&self, suite: SuiteId, case: &Case, ctx: &mut Ctx) -> CheckResult {
        dispatch!(suite, check(case, ctx))
    }
}

pub fn rand_pubkeys<C: Suite>(pk: &PublicKeyPackage<C>, alpha: Sc<C>) -> PublicKeyPackage<C> {
    let a = gen_::<C>() * alpha;
    let vs: BTreeMap<Id<C>, VerifyingShare<C>> = pk.verifying_shares().iter().map(|(i, v)| (*i, VerifyingShare::new(v.to_element() + a))).collect();
    PublicKeyPackage::new(vs, VerifyingKey::new(pk.verifying_key().to_element() + a), pk.min_signers())
}

/// commitment sets of 2 and of 2 + 65536 + k entries under the same seed: different randomizers; a change in an entry far
/// behind position 65536 changes the randomizer
fn huge_set<C: Suite>(case: &Case, ctx: &mut Ctx) -> CheckResult {
    let mut rng = Sm(case.seed ^ 0x4a6e);
    let shape = Shape { n: 3, t: 2 };
    let keys = make_keys::<C>(shape, case.ids, KeySource::Dealer, case.seed, "C17")?;
    let signers: Vec<Id<C>> = keys.ids[..2].to_vec();
    let (_, comms) = commit_all::<C>(&keys.kps, &signers, rng.next());
    let vk = *keys.pubkeys.verifying_key();
    let seed = rng.bytes(32);
    ctx.eval("huge-commitment-set", true);
    ctx.label("huge-commitment-set");
    let regen = |cm: &BTreeMap<Id<C>, SigningCommitments<C>>| RandomizedParams::<C>::regenerate_from_seed_and_commitments(&vk, &seed, cm).ok().map(|p| p.randomizer().serialize());
    let small = regen(&comms);
    let filler = *comms.values().next().unwrap();
    let mut big = comms.clone();
    let extra = 65536u64 + rng.below(3);
    for i in 0..extra {
        // identifiers beyond the u16 range, all larger than the honest ones
        let id = Id::<C>::new(sc_u64::<C>(70_000 + i)).map_err(|e| inconclusive(format!("{e:?}")))?;
        big.insert(id, filler);
    }
    let large = regen(&big);
    ensure!(ctx, small.is_some() && large.is_some(), "C17/regenerate-failed", "regenerate_from_seed_and_commitments failed (set of {} entries: {}, set of {} entries: {})", comms.len(), small.is_some(), big.len(), large.is_some());
    ensure!(ctx, small != large, "C17/randomizer-ignores-commitments", "the same seed gives the same randomizer for a commitment set of {} entries and for that set plus {extra} further entries", comms.len());
    // change one entry far behind the 65536-th
    let last = *big.keys().next_back().unwrap();
    let other = SigningCommitments::<C>::new(NonceCommitment::new(gen_::<C>() * sc_rand_nonzero::<C>(rng.next())), *filler.binding());
    big.insert(last, other);
    ensure!(ctx, regen(&big) != large, "C17/randomizer-ignores-commitments", "altering the last of {} commitment entries does not change the randomizer", big.len());
    Ok(())
}

fn check<C: Suite>(case: &Case, ctx: &mut Ctx) -> CheckResult {
    if case.mode == 200 {
        return huge_set::<C>(case, ctx);
    }
    let shape = Shape { n: case.shape.n.max(2), t: case.shape.t.clamp(2, case.shape.n.max(2)) };
    let keys = make_keys::<C>(shape, case.ids, case.source, case.seed, "C17")?;
    let sub = make_subset(shape.n as usize, shape.t as usize, case.subset);
    let signers: Vec<Id<C>> = sub.iter().map(|i| keys.ids[*i]).collect();
    let m = signers.len();
    let msg = case.msg.bytes();
    let vk = *keys.pubkeys.verifying_key();
    let mut rng = Sm(case.seed ^ 0xc17);
    let mode = case.mode % 4;
    let mname = ["seed", "explicit", "zero", "chosen-seed"][mode as usize];
    ctx.label(&format!("mode:{mname}"));
    let trivial = mode == 0 && shape.n == 5 && shape.t == 3 && case.ids.style == IdStyle::Default && subset_is_prefix(&sub) && m == 3;
    ctx.eval(&format!("{},{},{m},{mname},{},run", shape.n, shape.t, case.ids.style.name()), !trivial);
    let desc = format!("n={} t={} |S|={m} ids={} src={} mode={mname}", shape.n, shape.t, case.ids.style.name(), case.source.name());

    // round one
    let (nonces, comms) = commit_all::<C>(&keys.kps, &signers, rng.next());
    let package = SigningPackage::new(comms.clone(), &msg);

    // coordinator's parameters
    let (params, seed_bytes): (RandomizedParams<C>, Option<Vec<u8>>) = match mode {
        0 => {
            let mut tape = Tape::random(rng.next());
            let (p, s) = RandomizedParams::<C>::new_from_commitments(&vk, package.signing_commitments(), &mut tape).map_err(|e| Failure { key: "C17/new-from-commitments-failed".into(), msg: format!("{e:?}") })?;
            let _ = &tape;
            (p, Some(s))
        }
        1 => (RandomizedParams::from_randomizer(&vk, Randomizer::from_scalar(sc_rand_nonzero::<C>(rng.next()))), None),
        3 => {
            // "for every randomizer seed": any byte string, also the empty one
            let len = [0usize, 1, 15, 16, 31, 33, 64, 300][(case.seed >> 7) as usize % 8];
            let s = rng.bytes(len);
            ctx.label(&format!("seed-length:{len}"));
            let p = RandomizedParams::<C>::regenerate_from_seed_and_commitments(&vk, &s, package.signing_commitments()).map_err(|e| Failure { key: "C17/regenerate-failed".into(), msg: format!("seed of {len} bytes: {e:?}") })?;
            (p, Some(s))
        }
        _ => (RandomizedParams::from_randomizer(&vk, Randomizer::from_scalar(zero::<C>())), None),
    };
    let alpha = sc_from_bytes::<C>(&params.randomizer().serialize()).ok_or_else(|| inconclusive("randomizer bytes"))?;
    // randomized key = key + alpha*G, element = alpha*G
    ensure!(ctx, *params.randomizer_element() == gen_::<C>() * alpha, "C17/randomizer-element", "randomizer element != alpha*G ({desc})");
    ensure!(ctx, params.randomized_verifying_key().to_element() == vk.to_element() + gen_::<C>() * alpha, "C17/randomized-key", "randomized key != group key + alpha*G ({desc})");
    let rvk = *params.randomized_verifying_key();
    let rpk = rand_pubkeys::<C>(&keys.pubkeys, alpha);

    if let Some(seed) = &seed_bytes {
        // the reference recomputes the randomizer from seed || encoded commitment list
        let enc = frost::round1::encode_group_commitments(package.signing_commitments()).map_err(|e| inconclusive(format!("{e:?}")))?;
        let mut pre = seed.clone();
        pre.extend_from_slice(&enc);
        let r = ctx.py.call(&json!({"op":"hash","suite":C::SID.name(),"which":"randomizer","msg":hex::encode(&pre)}))?;
        ensure!(ctx, r["scalar"].as_str() == Some(&hex::encode(params.randomizer().serialize())), "C17/randomizer-not-hash-of-seed-and-commitments", "randomizer != H_randomizer(seed || commitment list) ({desc})");
        // every participant regenerates the same parameters
        let p2 = RandomizedParams::<C>::regenerate_from_seed_and_commitments(&vk, seed, package.signing_commitments()).map_err(|e| Failure { key: "C17/regenerate-failed".into(), msg: format!("{e:?}") })?;
        ensure!(ctx, p2 == params, "C17/participant-parameters-differ", "regenerated parameters differ from the coordinator's ({desc})");
    }

    // round two
    let mut shares = BTreeMap::new();
    for id in &signers {
        let r = match &seed_bytes {
            Some(seed) => rr::sign_with_randomizer_seed::<C>(&package, &nonces[id], &keys.kps[id], seed),
            None => {
                #[allow(deprecated)]
                rr::sign::<C>(&package, &nonces[id], &keys.kps[id], *params.randomizer())
            }
        };
        match r {
            Ok(s) => {
                shares.insert(*id, s);
            }
            Err(e) => return ctx.fail("C17/honest-sign-failed", format!("re-randomized signing failed for an honest participant: {e:?} ({desc})")),
        }
    }
    let sig = match rr::aggregate::<C>(&package, &shares, &keys.pubkeys, &params) {
        Ok(s) => s,
        Err(e) => return ctx.fail("C17/honest-aggregate-failed", format!("re-randomized aggregation failed: {e:?} ({desc})")),
    };
    let sigb = sig_bytes::<C>(&sig)?;
    ensure!(ctx, rvk.verify(&msg, &sig).is_ok(), "C17/not-valid-under-randomized-key", "signature does not verify under the randomized key ({desc})");
    let iv = independent_verify::<C>(ctx, &rvk, &msg, &sigb, true)?;
    ensure!(ctx, iv == Some(true), "C17/not-valid-under-randomized-key", "independent verifier rejects the signature under the randomized key ({desc})");
    if alpha != zero::<C>() {
        ensure!(ctx, vk.verify(&msg, &sig).is_err(), "C17/valid-under-original-key", "re-randomized signature verifies under the ORIGINAL group key ({desc})");
        let iv = independent_verify::<C>(ctx, &vk, &msg, &sigb, false)?;
        ensure!(ctx, iv != Some(true), "C17/valid-under-original-key", "independent verifier accepts the signature under the original key ({desc})");
    } else {
        ensure!(ctx, vk.verify(&msg, &sig).is_ok() && rvk == vk, "C17/zero-randomizer", "zero randomizer is not the degenerate case ({desc})");
    }
    for (name, mode) in modes() {
        match rr::aggregate_custom::<C>(&package, &shares, &keys.pubkeys, mode, &params) {
            Ok(s2) => ensure!(ctx, sig_bytes::<C>(&s2)? == sigb, "C17/aggregate-modes-differ", "aggregate_custom({name}) gives another signature"),
            Err(e) => ctx.fail("C17/honest-aggregate-failed", format!("aggregate_custom({name}) failed: {e:?} ({desc})"))?,
        }
    }

    // ---- the randomizer is a function of the seed and of the exact commitment set
    if let Some(seed) = &seed_bytes {
        let base = params.randomizer().serialize();
        let regen = |s: &[u8], c: &BTreeMap<Id<C>, SigningCommitments<C>>| Randomizer::<C>::regenerate_from_seed_and_commitments(s, c).ok().map(|r| r.serialize());
        // seed: every single-bit flip (quick: 16 sampled), truncation, extension, another seed
        let nbits = seed.len() * 8;
        let bits: Vec<usize> = if nbits == 0 { vec![] } else if ctx.tier == Tier::Quick { (0..16).map(|_| rng.below(nbits as u64) as usize).collect() } else { (0..nbits.min(512)).collect() };
        for b in bits {
            let mut s2 = seed.clone();
            s2[b / 8] ^= 1 << (b % 8);
            ctx.eval(&format!("{},{},{m},tamper,seed-bit", shape.n, shape.t), true);
            ctx.label("tamper:seed-bitflip");
            ensure!(ctx, regen(&s2, &comms) != Some(base.clone()), "C17/randomizer-ignores-seed", "flipping seed bit {b} does not change the randomizer ({desc})");
        }
        let other_len = seed.len().max(1);
        for (name, s2) in [("truncated", seed[..seed.len().saturating_sub(1)].to_vec()), ("extended", [seed.clone(), vec![0]].concat()), ("other", rng.bytes(other_len)), ("empty", vec![])] {
            if s2 == *seed {
                continue;
            }
            ctx.eval(&format!("{},{},{m},tamper,seed-{name}", shape.n, shape.t), true);
            ensure!(ctx, regen(&s2, &comms) != Some(base.clone()), "C17/randomizer-ignores-seed", "a {name} seed gives the same randomizer ({desc})");
        }
        // commitment set: every signer's hiding / binding commitment, identifier, membership
        for (i, id) in signers.iter().enumerate() {
            let c = comms[id];
            let rnd = NonceCommitment::<C>::new(gen_::<C>() * sc_rand_nonzero::<C>(rng.next()));
            for (name, c2) in [
                ("hiding", SigningCommitments::new(rnd, *c.binding())),
                ("binding", SigningCommitments::new(*c.hiding(), rnd)),
                ("swapped", SigningCommitments::new(*c.binding(), *c.hiding())),
            ] {
                let mut cm = comms.clone();
                cm.insert(*id, c2);
                ctx.eval(&format!("{},{},{m},tamper,commitment-{name}", shape.n, shape.t), true);
                ctx.label("tamper:commitment");
                ensure!(ctx, regen(seed, &cm) != Some(base.clone()), "C17/randomizer-ignores-commitments", "altering the {name} commitment of signer #{i} does not change the randomizer ({desc})");
            }
            // same commitments under another identifier
            let other = fresh_id::<C>(&keys.ids, IdSpec { style: case.ids.style, seed: rng.next() });
            let mut cm = comms.clone();
            let c0 = cm.remove(id).unwrap();
            cm.insert(other, c0);
            ctx.eval(&format!("{},{},{m},tamper,identifier", shape.n, shape.t), true);
            ensure!(ctx, regen(seed, &cm) != Some(base.clone()), "C17/randomizer-ignores-commitments", "re-keying the commitments of signer #{i} to another identifier does not change the randomizer ({desc})");
            let mut cm = comms.clone();
            cm.remove(id);
            ensure!(ctx, regen(seed, &cm) != Some(base.clone()), "C17/randomizer-ignores-commitments", "dropping signer #{i} does not change the randomizer ({desc})");
        }

        // ---- one participant uses a tampered seed / package: it is exactly the culprit
        {
            ctx.eval(&format!("{},{},{m},tamper,participant-wrong-seed", shape.n, shape.t), true);
            ctx.label("tamper:participant-uses-wrong-seed");
            let victim = signers[rng.below(m as u64) as usize];
            let mut s2 = seed.clone();
            if nbits == 0 {
                s2.push(1);
            } else {
                let b = rng.below(nbits as u64) as usize;
                s2[b / 8] ^= 1 << (b % 8);
            }
            if let Ok(bad) = rr::sign_with_randomizer_seed::<C>(&package, &nonces[&victim], &keys.kps[&victim], &s2) {
                let mut sub2 = shares.clone();
                sub2.insert(victim, bad);
                let (cheaters, dz) = model::<C>(&shares, &sub2);
                if !cheaters.is_empty() {
                    judge_with::<C>(
                        ctx,
                        &package,
                        &sub2,
                        &rpk,
                        &|md| rr::aggregate_custom::<C>(&package, &sub2, &keys.pubkeys, md, &params),
                        &|| rr::aggregate::<C>(&package, &sub2, &keys.pubkeys, &params),
                        &cheaters,
                        dz,
                        &msg,
                        &format!("{desc}; participant {} signed with a bit-flipped seed", id_hex::<C>(&victim)),
                        "C17",
                    )?;
                }
            }
        }
    }

    // ---- C04 model under randomization: one sampled cheater set (+ cancelling when possible)
    {
        let other = {
            // another session of the same signers under the same parameters mode (for the other-session fault)
            let (n2, c2) = commit_all::<C>(&keys.kps, &signers, rng.next());
            let p2 = SigningPackage::new(c2, &msg);
            let mut sh = BTreeMap::new();
            for id in &signers {
                if let Ok(s) = frost::round2::sign(&p2, &n2[id], &keys.kps[id]) {
                    sh.insert(*id, s);
                }
            }
            sh
        };
        if other.len() == m {
            for cancelling in [false, true] {
                let mask = 1 + rng.below((1u64 << m.min(16)) - 1) as u32;
                let cheat_pos: Vec<usize> = (0..m.min(16)).filter(|i| mask >> i & 1 == 1).collect();
                if cancelling && cheat_pos.len() < 2 {
                    continue;
                }
                let (sub2, kinds) = tamper_shares::<C>(&shares, &other, &signers, &cheat_pos, cancelling, &mut rng);
                let (cheaters, dz) = model::<C>(&shares, &sub2);
                if cheaters.is_empty() {
                    continue;
                }
                ctx.eval(&format!("{},{},{m},cheaters,{mask:b},{:?}", shape.n, shape.t, kinds), true);
                ctx.label("cheaters");
                judge_with::<C>(
                    ctx,
                    &package,
                    &sub2,
                    &rpk,
                    &|md| rr::aggregate_custom::<C>(&package, &sub2, &keys.pubkeys, md, &params),
                    &|| rr::aggregate::<C>(&package, &sub2, &keys.pubkeys, &params),
                    &cheaters,
                    dz,
                    &msg,
                    &format!("{desc}; cheaters(pos)={cheat_pos:?} kinds={kinds:?}"),
                    "C17",
                )?;
            }
        }
    }

    // ---- threshold enforcement under randomization
    if shape.t >= 2 {
        ctx.eval(&format!("{},{},{m},too-few", shape.n, shape.t), true);
        ctx.label("too-few");
        let k = 1 + rng.below(shape.t as u64 - 1) as usize;
        let few: Vec<Id<C>> = signers[..k].to_vec();
        let (n2, c2) = commit_all::<C>(&keys.kps, &few, rng.next());
        let p2 = SigningPackage::new(c2, &msg);
        let seed2 = seed_bytes.clone().unwrap_or_else(|| rng.bytes(sc_len::<C>()));
        for id in &few {
            let r = rr::sign_with_randomizer_seed::<C>(&p2, &n2[id], &keys.kps[id], &seed2);
            ensure!(ctx, matches!(r, Err(Error::IncorrectNumberOfCommitments)), "C17/signer-does-not-refuse", "re-randomized sign with {k} < t={} commitments returned {:?}", shape.t, r.as_ref().map(|_| "Ok"));
        }
        // lying signers, honest coordinator
        let mut sh = BTreeMap::new();
        for id in &few {
            let kp = &keys.kps[id];
            let lying = frost::keys::KeyPackage::new(*kp.identifier(), *kp.signing_share(), *kp.verifying_share(), *kp.verifying_key(), k as u16);
            if let Ok(s) = rr::sign_with_randomizer_seed::<C>(&p2, &n2[id], &lying, &seed2) {
                sh.insert(*id, s);
            }
        }
        if sh.len() == k {
            let prm = RandomizedParams::<C>::regenerate_from_seed_and_commitments(&vk, &seed2, p2.signing_commitments()).map_err(|e| inconclusive(format!("{e:?}")))?;
            let r = rr::aggregate::<C>(&p2, &sh, &keys.pubkeys, &prm);
            ensure!(ctx, matches!(r, Err(Error::IncorrectNumberOfShares)), "C17/coordinator-does-not-refuse", "re-randomized aggregate with {k} < t={} shares returned {:?}", shape.t, r.as_ref().map(|_| "Ok"));
            for (name, md) in modes() {
                let r = rr::aggregate_custom::<C>(&p2, &sh, &keys.pubkeys, md, &prm);
                ensure!(ctx, matches!(r, Err(Error::IncorrectNumberOfShares)), "C17/coordinator-does-not-refuse", "re-randomized aggregate_custom({name}) with {k} < t={} shares returned {:?}", shape.t, r.as_ref().map(|_| "Ok"));
            }
            for (name, md) in modes() {
                let lying_pk = PublicKeyPackage::<C>::new(keys.pubkeys.verifying_shares().clone(), vk, Some(k as u16));
                let r = rr::aggregate_custom::<C>(&p2, &sh, &lying_pk, md, &prm);
                ensure!(ctx, r.is_err(), "C17/sub-threshold-signature", "re-randomized aggregate_custom({name}) produced a signature from {k} < t={} holders", shape.t);
            }
        }
    }
    Ok(())
}
