//! C03 — fewer than the threshold of key holders can neither sign nor recover the key.

use crate::common::*;
use crate::engine::*;
use crate::suites::*;
use crate::tape::Sm;
use crate::{dispatch, ensure};
use frost_core as frost;
use frost_core::keys::{KeyPackage, PublicKeyPackage};
use frost_core::{CheaterDetection, Error, SigningPackage};
use proptest::prelude::*;
use serde::{Deserialize, Serialize};
use std::collections::BTreeMap;

pub struct C03;

#[derive(Clone, Debug, Serialize, Deserialize)]
pub struct Case {
    pub shape: Shape,
    pub ids: IdSpec,
    pub source: KeySource,
    pub msg: MsgSpec,
    /// how far below the real threshold the lying parties set min_signers (>= 1)
    pub lowered_by: u16,
    pub seed: u64,
}

impl Property for C03 {
    type Case = Case;
    fn id(&self) -> &'static str {
        "C03"
    }
    fn level(&self) -> &'static str {
        "exploration"
    }
    fn rule(&self) -> String {
        "case = (suite, n, t, identifier style, key source, message, lie depth, seed); inside each case every size k in 1..t-1 is tried with \
         every k-subset of holders when C(n,k) <= 24 (sampled otherwise): honest refusal by signer and coordinator, the everybody-lies run \
         (min_signers lowered in all key material, three detection modes, hand-assembled signature), interpolation of k shares, and the \
         t-share control. One evaluation per (case, k, subset). non-trivial = t != 3 or k != 2 or lie depth != 1 or non-default identifiers; \
         distinct = distinct (suite, n, t, k, id style, source, lie depth, subset class) tuples"
            .into()
    }
    fn assumptions(&self) -> Vec<String> {
        vec![
            "secrecy in the information-theoretic sense is not testable; the observable consequences listed in the statement are tested".into(),
            "a random (wrong) signature verifying by chance (probability ~2^-250) is ignored".into(),
        ]
    }
    fn plan(&self, suite: SuiteId, tier: Tier) -> Vec<(u32, u32)> {
        let per = match (tier, suite.slow()) {
            (Tier::Quick, false) => 10,
            (Tier::Quick, true) => 3,
            (Tier::Thorough, false) => 200,
            (Tier::Thorough, true) => 40,
        };
        // strata: identifier style x key source (dealer, dkg, dealer+refresh, dealer+repair)
        (0..30).map(|s| (s, per)).collect()
    }
    fn chunk(&self, suite: SuiteId) -> u32 {
        if suite.slow() { 3 } else { 10 }
    }
    fn strategy(&self, suite: SuiteId, tier: Tier, stratum: u32) -> BoxedStrategy<Case> {
        let style = ID_STYLES[(stratum % 6) as usize];
        let source = [KeySource::Dealer, KeySource::Dkg, KeySource::DealerRefreshed, KeySource::Repaired, KeySource::History(0)][(stratum / 6 % 5) as usize];
        let nmax = match (tier, suite.slow(), source) {
            (Tier::Quick, false, KeySource::Dkg | KeySource::History(_)) => 6,
            (Tier::Quick, true, KeySource::Dkg | KeySource::History(_)) => 4,
            (Tier::Quick, false, _) => 9,
            (Tier::Quick, true, _) => 6,
            (Tier::Thorough, false, KeySource::Dkg | KeySource::History(_)) => 8,
            (Tier::Thorough, true, KeySource::Dkg | KeySource::History(_)) => 5,
            (Tier::Thorough, false, _) => 16,
            (Tier::Thorough, true, _) => 9,
        };
        (shape_strategy(nmax), idspec_strategy(Some(style)), msg_short_strategy(), 1u16..4, any::<u64>())
            .prop_map(move |(shape, ids, msg, lowered_by, seed)| Case { shape, ids, source, msg, lowered_by, seed })
            .boxed()
    }
    fn required_labels(&self, tier: Tier) -> Vec<(String, u64)> {
        let m = tier.pick(20, 200);
        vec![
            ("k=1".into(), m),
            ("k=t-1".into(), m),
            ("k>=3".into(), m),
            ("src:dkg".into(), m),
            ("src:dealer+refresh".into(), m),
            ("src:dealer+repair".into(), m),
            ("src:history".into(), m),
            ("lied:refused-by-aggregate".into(), m),
            ("honest:signer-refused".into(), m),
            ("honest:coordinator-refused".into(), m),
            ("honest:rerandomized-signer-refused".into(), m),
            ("tr:tweaked-entry-points-refused".into(), 5),
            ("control:t-shares-reconstruct".into(), m),
        ]
    }
    fn check(&self, suite: SuiteId, case: &Case, ctx: &mut Ctx) -> CheckResult {
        dispatch!(suite, check(case, ctx))
    }
}

fn subsets_of_size(n: usize, k: usize, cap: usize, rng: &mut Sm) -> (Vec<Vec<usize>>, bool) {
    // number of k-subsets
    let mut c: u128 = 1;
    for i in 0..k {
        c = c * (n - i) as u128 / (i + 1) as u128;
    }
    if c <= cap as u128 {
        let mut out = Vec::new();
        let mut cur: Vec<usize> = (0..k).collect();
        loop {
            out.push(cur.clone());
            // next combination
            let mut i = k;
            while i > 0 && cur[i - 1] == n - k + i - 1 {
                i -= 1;
            }
            if i == 0 {
                break;
            }
            cur[i - 1] += 1;
            for j in i..k {
                cur[j] = cur[j - 1] + 1;
            }
        }
        (out, true)
    } else {
        let mut out = Vec::new();
        for j in 0..cap {
            let class = [SubsetClass::Scattered, SubsetClass::Prefix, SubsetClass::Suffix][j % 3];
            let s = make_subset(n, k, SubsetSpec { class, extra: 0, seed: rng.next() });
            if !out.contains(&s) {
                out.push(s);
            }
        }
        (out, false)
    }
}

fn lying_kp<C: Suite>(kp: &KeyPackage<C>, min: u16) -> KeyPackage<C> {
    KeyPackage::new(*kp.identifier(), *kp.signing_share(), *kp.verifying_share(), *kp.verifying_key(), min)
}

fn check<C: Suite>(case: &Case, ctx: &mut Ctx) -> CheckResult {
    let shape = Shape { n: case.shape.n.max(2), t: case.shape.t.clamp(2, case.shape.n.max(2)) };
    let keys = make_keys::<C>(shape, case.ids, case.source, case.seed, "C03")?;
    let msg = case.msg.bytes();
    let vk = *keys.pubkeys.verifying_key();
    let t = shape.t as usize;
    let n = shape.n as usize;
    let mut rng = Sm(case.seed ^ 0xc03);
    ctx.label(&format!("src:{}", case.source.name()));

    // (e) control: t shares reconstruct the key, the public threshold fields say t
    {
        let sub = make_subset(n, t, SubsetSpec { class: SubsetClass::Scattered, extra: 0, seed: rng.next() });
        let kps: Vec<KeyPackage<C>> = sub.iter().map(|i| keys.kps[&keys.ids[*i]].clone()).collect();
        match frost::keys::reconstruct(&kps) {
            Ok(sk) => {
                let g = gen_::<C>() * sk.to_scalar();
                let ok = g == vk.to_element() || (C::SID.taproot() && el_neg::<C>(g) == vk.to_element());
                ensure!(ctx, ok, "C03/t-shares-do-not-reconstruct", "t={} shares do not interpolate to the group secret (n={})", t, n);
                ctx.label("control:t-shares-reconstruct");
            }
            Err(e) => ctx.fail("C03/t-shares-do-not-reconstruct", format!("reconstruct with t shares failed: {e:?}"))?,
        }
        ensure!(ctx, keys.pubkeys.min_signers() == Some(shape.t), "C03/threshold-field", "public key package records min_signers {:?}, expected {}", keys.pubkeys.min_signers(), shape.t);
        for kp in keys.kps.values() {
            ensure!(ctx, *kp.min_signers() == shape.t, "C03/threshold-field", "key package records min_signers {}, expected {}", kp.min_signers(), shape.t);
        }
    }

    // a structured attack that standard interpolation does not cover: two holders who ASSUME that all
    // non-constant coefficients of the sharing polynomial are equal (f(x) = s + a*(x + x^2 + ... + x^(t-1)))
    // solve a 2x2 system. For an honestly random polynomial of degree t-1 >= 2 the result is unrelated to
    // the key; it is the key exactly when the t-1 coefficients were not drawn independently.
    if t >= 3 {
        let g = |x: Sc<C>| -> Sc<C> {
            let mut acc = zero::<C>();
            let mut pw = x;
            for _ in 1..t {
                acc = acc + pw;
                pw = pw * x;
            }
            acc
        };
        let pair = make_subset(n, 2, SubsetSpec { class: SubsetClass::Scattered, extra: 0, seed: rng.next() });
        let (i1, i2) = (keys.ids[pair[0]], keys.ids[pair[1]]);
        let (x1, x2) = (i1.to_scalar(), i2.to_scalar());
        let (y1, y2) = (keys.kps[&i1].signing_share().to_scalar(), keys.kps[&i2].signing_share().to_scalar());
        let den = g(x2) - g(x1);
        if den != zero::<C>() {
            let s = (g(x2) * y1 - g(x1) * y2) * <F<C> as frost::Field>::invert(&den).expect("non-zero");
            let gs = gen_::<C>() * s;
            ctx.eval(&format!("{n},{t},two-holders-structured-attack,{}", case.source.name()), true);
            ctx.label("structured-attack:equal-coefficients");
            ensure!(ctx, gs != vk.to_element() && el_neg::<C>(gs) != vk.to_element(), "C03/two-holders-recover-key", "two key holders recover the group secret of a {t}-of-{n} sharing by assuming equal non-constant coefficients: the polynomial's coefficients are not independent (source {})", case.source.name());
        }
    }

    let ks: Vec<usize> = if t - 1 <= 5 { (1..t).collect() } else { vec![1, 2, (t - 1) / 2, t - 2, t - 1] };
    for k in ks {
        let (subs, _exh) = subsets_of_size(n, k, if ctx.tier == Tier::Quick { 12 } else { 24 }, &mut rng);
        for sub in subs {
            let nontrivial = t != 3 || k != 2 || case.lowered_by != 1 || case.ids.style != IdStyle::Default;
            ctx.eval(
                &format!("{},{},{},{},{},{},{}", n, t, k, case.ids.style.name(), case.source.name(), case.lowered_by, if subset_is_prefix(&sub) { "prefix" } else { "other" }),
                nontrivial,
            );
            if k == 1 {
                ctx.label("k=1");
            }
            if k == t - 1 {
                ctx.label("k=t-1");
            }
            if k >= 3 {
                ctx.label("k>=3");
            }
            let holders: Vec<Id<C>> = sub.iter().map(|i| keys.ids[*i]).collect();
            sub_case::<C>(ctx, &keys, &holders, &msg, case, &mut rng, k)?;
        }
    }
    Ok(())
}

fn sub_case<C: Suite>(ctx: &mut Ctx, keys: &Keys<C>, holders: &[Id<C>], msg: &[u8], case: &Case, rng: &mut Sm, k: usize) -> CheckResult {
    let t = keys.shape.t as usize;
    let vk = *keys.pubkeys.verifying_key();
    let sseed = rng.next();
    let (nonces, comms) = commit_all::<C>(&keys.kps, holders, sseed);
    let package = SigningPackage::new(comms.clone(), msg);

    // (a) the honest signer refuses a package that lists fewer than t participants
    for id in holders {
        let r = frost::round2::sign(&package, &nonces[id], &keys.kps[id]);
        ensure!(
            ctx,
            matches!(r, Err(Error::IncorrectNumberOfCommitments)),
            "C03/signer-does-not-refuse",
            "sign with {} < t={} commitments returned {:?} instead of IncorrectNumberOfCommitments",
            k,
            t,
            r.as_ref().map(|_| "Ok(share)")
        );
    }
    ctx.label("honest:signer-refused");

    // the cooperating parties lie: min_signers := lied in their own key packages.
    // lied = max(1, k - (lowered_by-1)) <= k so that signing proceeds
    let lied = (k as i64 - (case.lowered_by as i64 - 1)).max(0) as u16;
    let mut shares = BTreeMap::new();
    for id in holders {
        let kp = lying_kp::<C>(&keys.kps[id], lied);
        match frost::round2::sign(&package, &nonces[id], &kp) {
            Ok(s) => {
                shares.insert(*id, s);
            }
            Err(e) => {
                // a lying signer is not an honest one: refusal is fine, but then nothing can be aggregated
                ctx.info(&format!("lying-signer-refused:{e:?}"));
                return Ok(());
            }
        }
    }

    // (b) the honest coordinator refuses fewer than t shares, in every mode
    for (name, mode) in modes() {
        let r = frost::aggregate_custom(&package, &shares, &keys.pubkeys, mode);
        ensure!(
            ctx,
            matches!(r, Err(Error::IncorrectNumberOfShares)),
            "C03/coordinator-does-not-refuse",
            "aggregate_custom({name}) with {} < t={} shares returned {:?} instead of IncorrectNumberOfShares",
            k,
            t,
            r.as_ref().map(|_| "Ok(signature)")
        );
    }
    let r = frost::aggregate(&package, &shares, &keys.pubkeys);
    ensure!(ctx, matches!(r, Err(Error::IncorrectNumberOfShares)), "C03/coordinator-does-not-refuse", "aggregate with {} < t={} shares returned {:?}", k, t, r.as_ref().map(|_| "Ok(signature)"));
    ctx.label("honest:coordinator-refused");
    // the re-randomized coordinator entry points refuse for the same reason (zero randomizer: the shares are the same session's)
    {
        use frost_rerandomized as rr;
        let params = rr::RandomizedParams::<C>::from_randomizer(&vk, rr::Randomizer::from_scalar(zero::<C>()));
        for (name, mode) in modes() {
            let r = rr::aggregate_custom::<C>(&package, &shares, &keys.pubkeys, mode, &params);
            ensure!(ctx, matches!(r, Err(Error::IncorrectNumberOfShares)), "C03/coordinator-does-not-refuse", "frost_rerandomized::aggregate_custom({name}) with {} < t={} shares returned {:?} instead of IncorrectNumberOfShares", k, t, r.as_ref().map(|_| "Ok(signature)"));
        }
        let r = rr::aggregate::<C>(&package, &shares, &keys.pubkeys, &params);
        ensure!(ctx, matches!(r, Err(Error::IncorrectNumberOfShares)), "C03/coordinator-does-not-refuse", "frost_rerandomized::aggregate with {} < t={} shares returned {:?}", k, t, r.as_ref().map(|_| "Ok(signature)"));
    }

    // the other signer-side entry points refuse as well: re-randomized signing (explicit randomizer and seed) and, for
    // the Taproot suite, signing with the tweak; the tweaked coordinator entry point refuses the lying holders' shares
    {
        use frost_rerandomized as rr;
        let rz = rr::Randomizer::<C>::from_scalar(sc_rand::<C>(rng.next()));
        let seed = rng.bytes(32);
        for id in holders {
            #[allow(deprecated)]
            let r = rr::sign::<C>(&package, &nonces[id], &keys.kps[id], rz);
            ensure!(ctx, r.is_err(), "C03/signer-does-not-refuse", "frost_rerandomized::sign produced a share for {} < t={} commitments", k, t);
            let r = rr::sign_with_randomizer_seed::<C>(&package, &nonces[id], &keys.kps[id], &seed);
            ensure!(ctx, r.is_err(), "C03/signer-does-not-refuse", "frost_rerandomized::sign_with_randomizer_seed produced a share for {} < t={} commitments", k, t);
        }
        if C::SID.taproot() {
            for root in [None, Some(rng.bytes(32))] {
                let root_ref = root.as_deref();
                let mut tw = BTreeMap::new();
                for id in holders {
                    let r = C::tr_sign_with_tweak(&package, &nonces[id], &keys.kps[id], root_ref).unwrap();
                    ensure!(ctx, r.is_err(), "C03/signer-does-not-refuse", "sign_with_tweak (root {}) produced a share for {} < t={} commitments", if root.is_some() { "present" } else { "absent" }, k, t);
                    if let Ok(s) = C::tr_sign_with_tweak(&package, &nonces[id], &lying_kp::<C>(&keys.kps[id], lied), root_ref).unwrap() {
                        tw.insert(*id, s);
                    }
                }
                if tw.len() == holders.len() {
                    let r = C::tr_aggregate_with_tweak(&package, &tw, &keys.pubkeys, root_ref).unwrap();
                    ensure!(ctx, matches!(r, Err(Error::IncorrectNumberOfShares)), "C03/coordinator-does-not-refuse", "aggregate_with_tweak with {} < t={} shares returned {:?} instead of IncorrectNumberOfShares", k, t, r.as_ref().map(|_| "Ok(signature)"));
                    ctx.label("tr:tweaked-entry-points-refused");
                }
            }
        }
        ctx.label("honest:rerandomized-signer-refused");
    }

    // (c) everybody lies, coordinator included: Some(lied) and the legacy None
    for pk_min in [Some(lied), None] {
        let pubs = PublicKeyPackage::<C>::new(keys.pubkeys.verifying_shares().clone(), vk, pk_min);
        for (name, mode) in modes() {
            match frost::aggregate_custom(&package, &shares, &pubs, mode) {
                Ok(sig) => {
                    // aggregation itself promises validity: an Ok here is a valid signature by < t holders
                    let b = sig_bytes::<C>(&sig)?;
                    return ctx.fail(
                        "C03/sub-threshold-signature",
                        format!("aggregate_custom({name}) returned a signature from {k} < t={t} key holders (min_signers lied as {pk_min:?}); bytes {}", hex::encode(b)),
                    );
                }
                Err(_) => {}
            }
        }
        ctx.label("lied:refused-by-aggregate");
    }
    // ... and nothing it could have returned verifies: assemble z = sum z_i and R ourselves
    let bfl = frost::compute_binding_factor_list(&package, &even_vk::<C>(&vk), &[]).map_err(|e| inconclusive(format!("bfl: {e:?}")))?;
    let gc = frost::compute_group_commitment(&package, &bfl).map_err(|e| inconclusive(format!("gc: {e:?}")))?;
    let mut z = zero::<C>();
    for id in holders {
        // SignatureShare scalar through its wire form
        let zi = sc_from_bytes::<C>(&shares[id].serialize()).ok_or_else(|| inconclusive("share bytes"))?;
        z = z + zi;
    }
    let forged = frost::Signature::<C>::new(gc.to_element(), z);
    ensure!(ctx, vk.verify(msg, &forged).is_err(), "C03/sub-threshold-signature", "sum of {} < t={} shares verifies under the group key", k, t);
    if let Ok(b) = forged.serialize() {
        let iv = independent_verify::<C>(ctx, &vk, msg, &b, false)?;
        ensure!(ctx, iv != Some(true), "C03/sub-threshold-signature", "sum of {} < t={} shares verifies under the group key (independent verifier)", k, t);
    }

    // (d) interpolating k < t shares does not give the key
    let honest_kps: Vec<KeyPackage<C>> = holders.iter().map(|i| keys.kps[i].clone()).collect();
    // (the statement only demands that the result is not the group secret; `reconstruct` documents its
    // size check as best effort, so either a refusal or a *different* key is fine)
    match frost::keys::reconstruct(&honest_kps) {
        Err(_) => ctx.label("reconstruct:refused"),
        Ok(sk) => {
            ctx.label("reconstruct:different-key");
            let g = gen_::<C>() * sk.to_scalar();
            ensure!(ctx, g != vk.to_element() && el_neg::<C>(g) != vk.to_element(), "C03/sub-threshold-reconstruct", "reconstruct over {} < t={} honest key packages yields the group secret", k, t);
        }
    }
    let lying: Vec<KeyPackage<C>> = holders.iter().map(|i| lying_kp::<C>(&keys.kps[i], lied.max(1).min(k as u16))).collect();
    if let Ok(sk) = frost::keys::reconstruct(&lying) {
        let g = gen_::<C>() * sk.to_scalar();
        ensure!(ctx, g != vk.to_element() && el_neg::<C>(g) != vk.to_element(), "C03/sub-threshold-reconstruct", "reconstruct over {} < t={} shares yields the group secret", k, t);
    }
    // own Lagrange interpolation at zero
    let xs: Vec<Sc<C>> = holders.iter().map(|i| i.to_scalar()).collect();
    let mut acc = zero::<C>();
    for id in holders {
        acc = acc + lagrange::<C>(&xs, id.to_scalar(), None) * keys.kps[id].signing_share().to_scalar();
    }
    let g = gen_::<C>() * acc;
    ensure!(ctx, g != vk.to_element() && el_neg::<C>(g) != vk.to_element(), "C03/degree-too-low", "{} < t={} shares interpolate to the group secret: the sharing polynomial has degree below t-1", k, t);
    Ok(())
}

pub fn modes() -> [(&'static str, CheaterDetection); 3] {
    [("disabled", CheaterDetection::Disabled), ("first", CheaterDetection::FirstCheater), ("all", CheaterDetection::AllCheaters)]
}

/// Taproot normalises the key to even Y before it is hashed; identity for the other suites
pub fn even_vk<C: Suite>(vk: &frost::VerifyingKey<C>) -> frost::VerifyingKey<C> {
    if C::SID.taproot() && y_is_odd::<C>(&vk.to_element()) {
        frost::VerifyingKey::<C>::new(el_neg::<C>(vk.to_element()))
    } else {
        *vk
    }
}
