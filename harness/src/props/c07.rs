//! C07 — honest distributed key generation ends with one group key and matching shares.

use crate::common::*;
use crate::engine::*;
use crate::suites::*;
use crate::tape::{Sm, Tape};
use crate::{dispatch, ensure};
use frost_core as frost;
use frost_core::keys::dkg;
use proptest::prelude::*;
use serde::{Deserialize, Serialize};
use serde_json::json;
use std::collections::BTreeMap;

pub struct C07;
const LARGE_T: u32 = 100;

#[derive(Clone, Debug, Serialize, Deserialize)]
pub struct Case {
    pub shape: Shape,
    pub ids: IdSpec,
    pub msg: MsgSpec,
    pub seed: u64,
}

impl Property for C07 {
    type Case = Case;
    fn id(&self) -> &'static str {
        "C07"
    }
    fn level(&self) -> &'static str {
        "exploration"
    }
    fn rule(&self) -> String {
        "case = (suite, n, t, identifier style incl. non-contiguous / derived / arbitrary scalars, per-participant random tapes, message); \
         every participant runs parts 1-3; the oracle recomputes the group key as the sum of constant-term commitments and every share as \
         sum_j f_j(i) by naive evaluation of the coefficients in the round-one secret packages (Taproot: even-Y normalisation and the \
         BIP-341 key-path-only tweak computed by the Python reference), then a t-subset and the full set sign. non-trivial = (n,t) != (5,3) \
         or non-default identifiers; distinct = distinct (suite, n, t, id style, key parity) tuples"
            .into()
    }
    fn assumptions(&self) -> Vec<String> {
        vec![
            "curve-crate group/field arithmetic is trusted to state the expected sums".into(),
            "Taproot tweak expected value comes from frostref.py taproot_tweak_pubkey (BIP-341 reference algorithm)".into(),
        ]
    }
    fn plan(&self, suite: SuiteId, tier: Tier) -> Vec<(u32, u32)> {
        let per = match (tier, suite.slow()) {
            (Tier::Quick, false) => 60,
            (Tier::Quick, true) => 8,
            (Tier::Thorough, false) => 1500,
            (Tier::Thorough, true) => 150,
        };
        let mut v: Vec<(u32, u32)> = (0..6).map(|s| (s, per)).collect();
        // large thresholds (16, 17, 20, 33 coefficients; n = t or t + 1)
        v.push((LARGE_T, match (tier, suite.slow()) {
            (Tier::Quick, false) => 3,
            (Tier::Quick, true) => 1,
            (Tier::Thorough, false) => 16,
            (Tier::Thorough, true) => 3,
        }));
        v
    }
    fn chunk(&self, suite: SuiteId) -> u32 {
        if suite.slow() { 1 } else { 5 }
    }
    fn max_shrink_iters(&self) -> u32 {
        96
    }
    fn strategy(&self, suite: SuiteId, tier: Tier, stratum: u32) -> BoxedStrategy<Case> {
        if stratum == LARGE_T {
            let ts: Vec<u16> = if suite.slow() { vec![16, 17] } else { vec![16, 17, 20, 33] };
            return (proptest::sample::select(ts), 0u16..2, idspec_strategy(None), msg_short_strategy(), any::<u64>())
                .prop_map(|(t, extra, ids, msg, seed)| Case { shape: Shape { n: t + extra, t }, ids, msg, seed })
                .boxed();
        }
        let style = ID_STYLES[(stratum % 6) as usize];
        let nmax = match (tier, suite.slow()) {
            (Tier::Quick, false) => 7,
            (Tier::Quick, true) => 4,
            (Tier::Thorough, false) => 12,
            (Tier::Thorough, true) => 6,
        };
        (shape_strategy(nmax), idspec_strategy(Some(style)), msg_short_strategy(), any::<u64>())
            .prop_map(|(shape, ids, msg, seed)| Case { shape, ids, msg, seed })
            .boxed()
    }
    fn required_labels(&self, tier: Tier) -> Vec<(String, u64)> {
        let m = tier.pick(10, 100);
        vec![("t=n".into(), m), ("n>=5".into(), m), ("t>=16".into(), 6), ("equal-polynomials".into(), m), ("tr:internal-key-odd".into(), 3), ("tr:internal-key-even".into(), 3)]
    }
    fn check(&self, suite: SuiteId, case: &Case, ctx: &mut Ctx) -> CheckResult {
        dispatch!(suite, check(case, ctx))
    }
}

/// expected group key and per-participant shares from the round-one secret packages
pub struct Expected<C: Suite> {
    pub group_key: El<C>,
    pub shares: BTreeMap<Id<C>, Sc<C>>,
}

pub fn expected_from_run<C: Suite>(ctx: &mut Ctx, run: &DkgRun<C>, ids: &[Id<C>]) -> Result<Expected<C>, Failure> {
    let mut key = ident::<C>();
    for p in run.r1_pkg.values() {
        let c0 = p.commitment().coefficients().first().map(|c| c.value()).ok_or_else(|| inconclusive("empty commitment"))?;
        key = key + c0;
    }
    let mut shares = BTreeMap::new();
    for i in ids {
        let mut s = zero::<C>();
        for sp in run.r1_secret.values() {
            s = s + poly_eval::<C>(&sp.coefficients(), i.to_scalar());
        }
        shares.insert(*i, s);
    }
    if C::SID.taproot() {
        // BIP-341 key-path-only output key Q = P_even + H_TapTweak(x(P)) G, computed by the reference
        let pk = el_bytes::<C>(&key).ok_or_else(|| inconclusive("identity group key"))?;
        let r = ctx.py.call(&json!({"op":"tweak","pk":hex::encode(&pk),"root":null}))?;
        let t = sc_from_bytes::<C>(&hex::decode(r["t"].as_str().unwrap_or("")).unwrap_or_default()).ok_or_else(|| inconclusive("tweak scalar"))?;
        let odd = y_is_odd::<C>(&key);
        ctx.label(if odd { "tr:internal-key-odd" } else { "tr:internal-key-even" });
        let p_even = if odd { el_neg::<C>(key) } else { key };
        let q = p_even + gen_::<C>() * t;
        // cross-check with the reference's x(Q) and parity
        let qb = el_bytes::<C>(&q).ok_or_else(|| inconclusive("identity output key"))?;
        if hex::encode(&qb[1..]) != r["qx"].as_str().unwrap_or("") || (qb[0] == 3) != (r["parity"].as_u64() == Some(1)) {
            return Err(inconclusive("harness tweak arithmetic disagrees with the reference"));
        }
        key = q;
        for s in shares.values_mut() {
            *s = (if odd { neg::<C>(*s) } else { *s }) + t;
        }
    }
    Ok(Expected { group_key: key, shares })
}

/// the consistency relation of a (KeyPackage, PublicKeyPackage) pair stated in C07/C09
pub fn consistent<C: Suite>(
    ctx: &mut Ctx,
    kp: &frost::keys::KeyPackage<C>,
    pk: &frost::keys::PublicKeyPackage<C>,
    t: u16,
    n: usize,
    p: &str,
    desc: &str,
) -> CheckResult {
    let gs = gen_::<C>() * kp.signing_share().to_scalar();
    ensure!(ctx, kp.verifying_share().to_element() == gs, &format!("{p}/verifying-share"), "key package verifying share != G*signing share ({desc})");
    ensure!(ctx, pk.verifying_shares().get(kp.identifier()).map(|v| v.to_element()) == Some(gs), &format!("{p}/verifying-share"), "public key package entry != G*signing share of {} ({desc})", id_hex::<C>(kp.identifier()));
    ensure!(ctx, kp.verifying_key() == pk.verifying_key(), &format!("{p}/group-key-differs"), "key package and public key package hold different group keys ({desc})");
    ensure!(ctx, *kp.min_signers() == t && pk.min_signers() == Some(t), &format!("{p}/threshold-field"), "threshold recorded as {} / {:?}, expected {t} ({desc})", kp.min_signers(), pk.min_signers());
    ensure!(ctx, pk.verifying_shares().len() == n, &format!("{p}/participant-count"), "public key package lists {} participants, expected {n} ({desc})", pk.verifying_shares().len());
    Ok(())
}

fn check<C: Suite>(case: &Case, ctx: &mut Ctx) -> CheckResult {
    let shape = Shape { n: case.shape.n.max(2), t: case.shape.t.clamp(2, case.shape.n.max(2)) };
    let (n, t) = (shape.n as usize, shape.t as usize);
    let desc = format!("n={n} t={t} ids={}", case.ids.style.name());
    if t >= 16 {
        ctx.label("t>=16");
    }
    let idv = make_ids::<C>(case.ids, n);
    // the ciphersuite crate's own keys::dkg::part1/2/3 give what the generic functions give
    crate::wrappers::differential::<C>(ctx, "C07", crate::wrappers::Part::Dkg, case.seed)?;
    // degenerate but honest (one case in five, small groups): two - or all - participants drew the SAME polynomial
    // (identically seeded random sources). Their proofs of knowledge still differ (bound to the identifier); the run
    // must complete like any other.
    if case.seed % 5 == 2 && n <= 6 {
        ctx.label("equal-polynomials");
        let all_same = case.seed % 10 == 2;
        let mut sorted = idv.clone();
        sorted.sort();
        let mut r1s = BTreeMap::new();
        let mut r1p = BTreeMap::new();
        for (k, id) in sorted.iter().enumerate() {
            let ts = if all_same || k < 2 { case.seed ^ 0xe9a1 } else { case.seed ^ 0xe9a1 ^ (k as u64 + 1) };
            match dkg::part1::<C, _>(*id, shape.n, shape.t, Tape::random(ts)) {
                Ok((s, p)) => {
                    r1s.insert(*id, s);
                    r1p.insert(*id, p);
                }
                Err(e) => return ctx.fail("C07/honest-part1-failed", format!("part1 failed ({desc}): {e:?}")),
            }
        }
        let mut r2s = BTreeMap::new();
        let mut r2p: BTreeMap<Id<C>, BTreeMap<Id<C>, dkg::round2::Package<C>>> = BTreeMap::new();
        for id in &sorted {
            let input: BTreeMap<_, _> = r1p.iter().filter(|(k, _)| *k != id).map(|(k, v)| (*k, v.clone())).collect();
            match dkg::part2(r1s[id].clone(), &input) {
                Ok((s, o)) => {
                    r2s.insert(*id, s);
                    r2p.insert(*id, o);
                }
                Err(e) => return ctx.fail("C07/honest-part2-failed", format!("part2 failed for honest participant {} although every contribution is honest ({} participants drew the same polynomial; {desc}): {e:?}", id_hex::<C>(id), if all_same { "all" } else { "two" })),
            }
        }
        let mut pks = Vec::new();
        for id in &sorted {
            let in1: BTreeMap<_, _> = r1p.iter().filter(|(k, _)| *k != id).map(|(k, v)| (*k, v.clone())).collect();
            let in2: BTreeMap<_, _> = sorted.iter().filter(|k| *k != id).map(|k| (*k, r2p[k][id].clone())).collect();
            match dkg::part3(&r2s[id], &in1, &in2) {
                Ok((kp, pk)) => {
                    consistent::<C>(ctx, &kp, &pk, shape.t, n, "C07", &desc)?;
                    pks.push(pk.serialize().ok());
                }
                Err(e) => return ctx.fail("C07/honest-part3-failed", format!("part3 failed for honest participant {} (equal polynomials; {desc}): {e:?}", id_hex::<C>(id))),
            }
        }
        ensure!(ctx, pks.windows(2).all(|w| w[0] == w[1]), "C07/public-key-packages-differ", "participants hold different public key packages (equal polynomials; {desc})");
    }
    let run = dkg_rounds::<C>(shape, &idv, case.seed, "C07")?;
    let exp = expected_from_run::<C>(ctx, &run, &idv)?;
    if t == n {
        ctx.label("t=n");
    }
    if n >= 5 {
        ctx.label("n>=5");
    }
    let mut kps = BTreeMap::new();
    let mut first_pk: Option<(Vec<u8>, frost::keys::PublicKeyPackage<C>)> = None;
    for id in &idv {
        let (r1, r2) = dkg_inputs_for(&run, id);
        let (kp, pk) = match dkg::part3(&run.r2_secret[id], &r1, &r2) {
            Ok(x) => x,
            Err(e) => return ctx.fail("C07/honest-part3-failed", format!("part3 failed for honest participant {} ({desc}): {e:?}", id_hex::<C>(id))),
        };
        let pkb = pk.serialize().map_err(|e| Failure { key: "C07/public-key-package-unserializable".into(), msg: format!("{e:?}") })?;
        match &first_pk {
            None => first_pk = Some((pkb, pk.clone())),
            Some((b0, _)) => ensure!(ctx, *b0 == pkb, "C07/public-key-packages-differ", "participants obtained different public key packages ({desc})"),
        }
        consistent::<C>(ctx, &kp, &pk, shape.t, n, "C07", &desc)?;
        ensure!(ctx, *kp.identifier() == *id, "C07/identifier", "key package identifier differs from the participant's");
        // group key = sum of constant-term commitments (Taproot: tweaked)
        ensure!(ctx, pk.verifying_key().to_element() == exp.group_key, "C07/group-key-not-sum-of-commitments", "group key != sum of the participants' constant-term commitments{} ({desc})", if C::SID.taproot() { " with the key-path-only tweak" } else { "" });
        // share lies on the sum polynomial
        ensure!(ctx, kp.signing_share().to_scalar() == exp.shares[id], "C07/share-not-on-sum-polynomial", "signing share of {} != sum_j f_j(i) ({desc})", id_hex::<C>(id));
        // every other participant's verifying share in the package is G * expected share
        for (j, vs) in pk.verifying_shares() {
            if let Some(sj) = exp.shares.get(j) {
                ensure!(ctx, vs.to_element() == gen_::<C>() * *sj, "C07/verifying-share-of-peer", "verifying share of {} in the package of {} is not G*(its share) ({desc})", id_hex::<C>(j), id_hex::<C>(id));
            } else {
                ctx.fail("C07/unknown-participant-in-package", format!("package lists unknown participant {}", id_hex::<C>(j)))?;
            }
        }
        kps.insert(*id, kp);
    }
    let (_, pk) = first_pk.unwrap();
    // the public key package rebuilt from the broadcast commitments alone agrees with what every participant computed
    // (Taproot: part3 post-processes its output, the plain commitments describe the untweaked key)
    if !C::SID.taproot() {
        let cm: BTreeMap<Id<C>, &frost::keys::VerifiableSecretSharingCommitment<C>> = idv.iter().map(|i| (*i, run.r1_pkg[i].commitment())).collect();
        ctx.label("from-dkg-commitments");
        match frost::keys::PublicKeyPackage::<C>::from_dkg_commitments(&cm) {
            Ok(p2) => ensure!(ctx, p2.verifying_key() == pk.verifying_key() && p2.verifying_shares() == pk.verifying_shares() && p2.min_signers() == pk.min_signers(), "C07/from-dkg-commitments-differs", "PublicKeyPackage::from_dkg_commitments over the broadcast commitments differs from the package part3 returned ({desc})"),
            Err(e) => ctx.fail("C07/from-dkg-commitments-differs", format!("PublicKeyPackage::from_dkg_commitments failed: {e:?} ({desc})"))?,
        }
    }
    let key_odd = C::SID.taproot() && y_is_odd::<C>(&pk.verifying_key().to_element());
    ctx.eval(&format!("{n},{t},{},{key_odd}", case.ids.style.name()), (n, t) != (5, 3) || case.ids.style != IdStyle::Default);
    ctx.label(&format!("id:{}", case.ids.style.name()));

    // any t participants can then sign: one scattered t-subset and the full set
    let mut sorted = idv.clone();
    sorted.sort();
    let mut rng = Sm(case.seed ^ 0xc07);
    let msg = case.msg.bytes();
    for (k, sub) in [
        make_subset(n, t, SubsetSpec { class: SubsetClass::Scattered, extra: 0, seed: rng.next() }),
        (0..n).collect::<Vec<_>>(),
    ]
    .iter()
    .enumerate()
    {
        let signers: Vec<Id<C>> = sub.iter().map(|i| sorted[*i]).collect();
        let sess = run_session::<C>(&kps, &signers, &msg, rng.next(), "C07")?;
        match frost::aggregate(&sess.package, &sess.shares, &pk) {
            Ok(sig) => {
                let b = sig_bytes::<C>(&sig)?;
                ensure!(ctx, pk.verifying_key().verify(&msg, &sig).is_ok(), "C07/cannot-sign", "signature by DKG participants rejected by the library ({desc}, set {k})");
                let iv = independent_verify::<C>(ctx, pk.verifying_key(), &msg, &b, true)?;
                ensure!(ctx, iv == Some(true), "C07/cannot-sign", "signature by DKG participants rejected by the independent verifier ({desc}, set {k})");
            }
            Err(e) => ctx.fail("C07/cannot-sign", format!("aggregate failed for honest DKG participants ({desc}, set {k}): {e:?}"))?,
        }
    }
    Ok(())
}
