//! C19 — batch verification accepts exactly the batches whose every item verifies.

use crate::common::*;
use crate::engine::*;
use crate::suites::*;
use crate::tape::{Sm, Tape};
use crate::{dispatch, ensure};
use frost_core::batch::{Item, Verifier};
use frost_core::{Signature, SigningKey, VerifyingKey};
use proptest::prelude::*;
use serde::{Deserialize, Serialize};

pub struct C19;

#[derive(Clone, Debug, Serialize, Deserialize)]
pub struct Case {
    pub size: u16,
    /// number of distinct keys (1 = all items under one key)
    pub keys: u8,
    /// 0 all valid, 1 one invalid item, 2 two independent invalid items, 3 many, 4 complementary z pair,
    /// 5 complementary R pair, 6 complementary pair under different keys, 7 swapped signatures of two items
    pub pattern: u8,
    pub pos_a: u16,
    pub pos_b: u16,
    pub kind: u8,
    pub seed: u64,
}

pub const KINDS: [&str; 6] = ["wrong-message", "wrong-key", "z+delta", "z-delta", "R+D", "signature-of-other-item"];

impl Property for C19 {
    type Case = Case;
    fn id(&self) -> &'static str {
        "C19"
    }
    fn level(&self) -> &'static str {
        "exploration"
    }
    fn rule(&self) -> String {
        "case = (suite, batch size 0..64 with 0, 1, 2 and >= 32 each frequent, number of distinct keys, invalid-item pattern in {none, one, \
         two, many, complementary z pair (z_i+d, z_j-d; in half of them d = -z_i so that one response is zero, in a quarter the pair \
         heads the queue), complementary R pair (R_i+D, R_j-D), complementary pair under different keys, \
         swapped signatures}, positions, invalid kind in {wrong message, wrong key, z+-delta, R+D, signature of another item}, verifier \
         randomness tape). Oracle: Verifier::verify is Ok iff every item's VerifyingKey::verify is Ok; the empty batch is rejected; \
         Item::verify_single agrees with VerifyingKey::verify and (sampled) with the independent verifier. One evaluation per batch. \
         non-trivial = batch size != 1 for valid batches, and any invalid pattern other than 'one wrong message at index 4 of 32'; \
         distinct = distinct (suite, size, keys, pattern, kind, positions) tuples"
            .into()
    }
    fn assumptions(&self) -> Vec<String> {
        vec![
            "the ~2^-128 soundness error over the verifier's randomness is taken on faith: a wrongly accepted batch would be re-run with a second tape before being reported".into(),
            "items are built from signatures of the library's own single signer (validated against independent verifiers in C02) and, up to three per batch, from FROST aggregation output as returned (C01)".into(),
        ]
    }
    fn plan(&self, suite: SuiteId, tier: Tier) -> Vec<(u32, u32)> {
        let per = match (tier, suite.slow()) {
            (Tier::Quick, false) => 12,
            (Tier::Quick, true) => 2,
            (Tier::Thorough, false) => 1000,
            (Tier::Thorough, true) => 100,
        };
        // strata: pattern (8) x size class (4: 0..2, 3..8, 9..31, 32..64)
        (0..32).map(|s| (s, per)).collect()
    }
    fn chunk(&self, suite: SuiteId) -> u32 {
        if suite.slow() { 2 } else { 6 }
    }
    fn strategy(&self, _suite: SuiteId, _tier: Tier, stratum: u32) -> BoxedStrategy<Case> {
        let pattern = (stratum % 8) as u8;
        let size = match stratum / 8 {
            0 => (0u16..=2).boxed(),
            1 => (3u16..=8).boxed(),
            2 => (9u16..=31).boxed(),
            _ => (32u16..=64).boxed(),
        };
        (size, 1u8..=5, any::<u16>(), any::<u16>(), 0u8..6, any::<u64>())
            .prop_map(move |(size, keys, pos_a, pos_b, kind, seed)| Case { size, keys, pattern, pos_a, pos_b, kind, seed })
            .boxed()
    }
    fn required_labels(&self, tier: Tier) -> Vec<(String, u64)> {
        let m = tier.pick(20, 300);
        let mut v: Vec<(String, u64)> = vec![
            ("size=0".into(), m / 2),
            ("size=1".into(), m / 2),
            ("size>=32".into(), m),
            ("valid-batch".into(), m),
            ("item:frost-aggregated".into(), m),
            ("item:frost-aggregated-R-odd".into(), 5),
            ("keys:irregular-repeats".into(), m),
            ("keys:adjacent-equal".into(), m),
            ("pattern:complementary-z".into(), m),
            ("pattern:complementary-R".into(), m),
            ("pattern:complementary-different-keys".into(), m),
            ("complementary:zero-response".into(), 10),
            ("complementary:zero-response-at-head".into(), 10),
            ("invalid-last-position".into(), 5),
            ("invalid-first-position".into(), 5),
        ];
        for k in KINDS {
            v.push((format!("kind:{k}"), m / 2));
        }
        v
    }
    fn check(&self, suite: SuiteId, case: &Case, ctx: &mut Ctx) -> CheckResult {
        dispatch!(suite, check(case, ctx))
    }
}

#[derive(Clone)]
struct It<C: Suite> {
    vk: VerifyingKey<C>,
    sig: Signature<C>,
    msg: Vec<u8>,
}

fn check<C: Suite>(case: &Case, ctx: &mut Ctx) -> CheckResult {
    let n = case.size.min(64) as usize;
    let mut rng = Sm(case.seed ^ 0xc19);
    let nkeys = (case.keys.max(1) as usize).min(n.max(1));
    let sks: Vec<SigningKey<C>> = (0..nkeys.max(2)).map(|_| SigningKey::<C>::new(&mut Tape::random(rng.next()))).collect();
    let mut items: Vec<It<C>> = Vec::new();
    let shared_msg = rng.bytes(7);
    // key of item i: round-robin, or (odd seeds) drawn at random so that keys repeat in irregular,
    // interleaved and adjacent patterns (A,A,B,C,B ...)
    let random_keys = case.seed & 1 == 1;
    for i in 0..n {
        let sk = if random_keys { &sks[rng.below(nkeys as u64) as usize] } else { &sks[i % nkeys] };
        let mlen = rng.below(40) as usize;
        let msg = if rng.below(3) == 0 { shared_msg.clone() } else { rng.bytes(mlen) };
        let sig = sk.sign(Tape::random(rng.next()), &msg);
        items.push(It { vk: VerifyingKey::<C>::from(sk), sig, msg });
    }
    // up to three items are threshold signatures exactly as FROST aggregation returns them (not re-encoded): for the
    // Taproot suite their R is the group commitment itself, with odd Y in about half of the sessions, plain or tweaked
    if n >= 1 && case.seed & 6 != 0 {
        let cnt = (1 + (case.seed >> 3) % 3).min(n as u64) as usize;
        for _ in 0..cnt {
            let shape = Shape { n: 3, t: 2 };
            let keys = dealer_keys::<C>(shape, IdSpec { style: IdStyle::Default, seed: 0 }, KeySource::Dealer, rng.next(), "C19")?;
            let signers: Vec<Id<C>> = keys.ids[..2].to_vec();
            let mlen2 = rng.below(40) as usize;
            let msg = rng.bytes(mlen2);
            let tweaked = C::SID.taproot() && rng.below(2) == 1;
            let (vk, sig) = if tweaked {
                let root = if rng.below(2) == 1 { Some(rng.bytes(32)) } else { None };
                let (nonces, comms) = commit_all::<C>(&keys.kps, &signers, rng.next());
                let package = frost_core::SigningPackage::new(comms, &msg);
                let mut shares = std::collections::BTreeMap::new();
                for id in &signers {
                    match C::tr_sign_with_tweak(&package, &nonces[id], &keys.kps[id], root.as_deref()).unwrap() {
                        Ok(s) => {
                            shares.insert(*id, s);
                        }
                        Err(e) => return Err(inconclusive(format!("C19 item: sign_with_tweak failed: {e:?}"))),
                    }
                }
                let sig = C::tr_aggregate_with_tweak(&package, &shares, &keys.pubkeys, root.as_deref()).unwrap().map_err(|e| inconclusive(format!("C19 item: aggregate_with_tweak failed: {e:?}")))?;
                (*C::tr_tweak_pubkeys(&keys.pubkeys, root.as_deref()).verifying_key(), sig)
            } else {
                let sess = run_session::<C>(&keys.kps, &signers, &msg, rng.next(), "C19")?;
                let sig = frost_core::aggregate(&sess.package, &sess.shares, &keys.pubkeys).map_err(|e| inconclusive(format!("C19 item: aggregate failed: {e:?}")))?;
                (*keys.pubkeys.verifying_key(), sig)
            };
            ctx.label("item:frost-aggregated");
            if C::SID.taproot() && y_is_odd::<C>(sig.R()) {
                ctx.label("item:frost-aggregated-R-odd");
            }
            let pos = rng.below(n as u64) as usize;
            items[pos] = It { vk, sig, msg };
        }
    }
    let mut pattern = case.pattern % 8;
    if n == 0 {
        pattern = 0;
    }
    if n == 1 && pattern >= 2 {
        pattern = 1;
    }
    let mut a = idx(case.pos_a, n.max(1));
    let mut b = idx(case.pos_b, n.max(1));
    if n >= 2 && b == a {
        b = (a + 1) % n;
    }
    // complementary z pairs: one case in four removes the whole response of item a (z_a = 0, the other item carries
    // z_b + z_a), and one more in four does so for the two items at the head of the queue, where a verifier's
    // accumulators are still empty
    let zero_response = matches!(pattern, 4 | 6) && n >= 2 && (case.seed >> 8) % 4 < 2;
    if zero_response && (case.seed >> 8) % 4 == 0 {
        a = 0;
        b = 1;
    }
    let kind = KINDS[(case.kind % 6) as usize];
    let corrupt = |items: &mut Vec<It<C>>, i: usize, kind: &str, rng: &mut Sm, sks: &Vec<SigningKey<C>>| {
        let d = sc_rand_nonzero::<C>(rng.next());
        match kind {
            "wrong-message" => items[i].msg.push(0x5a),
            "wrong-key" => {
                // a key that is not the signer's
                let other = VerifyingKey::<C>::new(items[i].vk.to_element() + gen_::<C>());
                let _ = sks;
                items[i].vk = other;
            }
            "z+delta" => items[i].sig = Signature::<C>::new(*items[i].sig.R(), *items[i].sig.z() + d),
            "z-delta" => items[i].sig = Signature::<C>::new(*items[i].sig.R(), *items[i].sig.z() - d),
            "R+D" => items[i].sig = Signature::<C>::new(*items[i].sig.R() + gen_::<C>() * d, *items[i].sig.z()),
            _ => {
                // signature of another item (or of a fresh message when alone)
                let j = (i + 1) % items.len();
                if j != i && (items[j].msg != items[i].msg || items[j].vk != items[i].vk) {
                    items[i].sig = items[j].sig;
                } else {
                    items[i].msg.push(1);
                }
            }
        }
    };
    let pname = ["valid", "one-invalid", "two-invalid", "many-invalid", "complementary-z", "complementary-R", "complementary-different-keys", "swapped-signatures"][pattern as usize];
    match pattern {
        0 => {}
        1 => corrupt(&mut items, a, kind, &mut rng, &sks),
        2 => {
            corrupt(&mut items, a, kind, &mut rng, &sks);
            let k2 = KINDS[rng.below(6) as usize];
            corrupt(&mut items, b, k2, &mut rng, &sks);
        }
        3 => {
            for i in 0..n {
                if i == a || rng.below(2) == 0 {
                    let k2 = KINDS[rng.below(6) as usize];
                    corrupt(&mut items, i, k2, &mut rng, &sks);
                }
            }
        }
        4 | 6 => {
            // errors that cancel in an unblinded sum: z_a + d, z_b - d
            if pattern == 6 {
                // force different keys for the pair
                let ska = &sks[0];
                let skb = &sks[1];
                for (p, sk) in [(a, ska), (b, skb)] {
                    let msg = rng.bytes(5);
                    items[p] = It { vk: VerifyingKey::<C>::from(sk), sig: sk.sign(Tape::random(rng.next()), &msg), msg };
                }
            } else {
                // same key for the pair
                let sk = &sks[0];
                for p in [a, b] {
                    let msg = rng.bytes(6);
                    items[p] = It { vk: VerifyingKey::<C>::from(sk), sig: sk.sign(Tape::random(rng.next()), &msg), msg };
                }
            }
            let mut d = sc_rand_nonzero::<C>(rng.next());
            if zero_response {
                d = zero::<C>() - *items[a].sig.z();
                ctx.label(if a == 0 && b == 1 { "complementary:zero-response-at-head" } else { "complementary:zero-response" });
            }
            items[a].sig = Signature::<C>::new(*items[a].sig.R(), *items[a].sig.z() + d);
            items[b].sig = Signature::<C>::new(*items[b].sig.R(), *items[b].sig.z() - d);
        }
        5 => {
            let dd = gen_::<C>() * sc_rand_nonzero::<C>(rng.next());
            // note: changing R changes the challenge as well; the pair is "complementary" in R only
            items[a].sig = Signature::<C>::new(*items[a].sig.R() + dd, *items[a].sig.z());
            items[b].sig = Signature::<C>::new(*items[b].sig.R() - dd, *items[b].sig.z());
        }
        _ => {
            let (sa, sb) = (items[a].sig, items[b].sig);
            if items[a].msg != items[b].msg || items[a].vk != items[b].vk {
                items[a].sig = sb;
                items[b].sig = sa;
            }
        }
    }

    // ---- oracle: every item individually
    let mut all_valid = true;
    let mut invalid_pos = Vec::new();
    for (i, it) in items.iter().enumerate() {
        let single = it.vk.verify(&it.msg, &it.sig).is_ok();
        // Item::verify_single agrees with ordinary verification
        match Item::<C>::new(it.vk, it.sig, &it.msg) {
            Ok(item) => {
                let vs = item.verify_single().is_ok();
                ensure!(ctx, vs == single, "C19/verify-single-disagrees", "Item::verify_single = {vs} but VerifyingKey::verify = {single} (item {i} of {n}, pattern {pname})");
            }
            Err(e) => {
                ensure!(ctx, !single, "C19/item-construction-failed", "Item::new failed for a valid item: {e:?}");
            }
        }
        // sampled agreement with the independent verifier (only items whose signature can be encoded)
        if i == a || i == b || i + 1 == n {
            if let Ok(sb) = it.sig.serialize() {
                let iv = independent_verify::<C>(ctx, &it.vk, &it.msg, &sb, i == a)?;
                if let Some(v) = iv {
                    ensure!(ctx, v == single, "C19/ordinary-verification-disagrees-with-independent", "VerifyingKey::verify = {single}, independent verifier = {v} (item {i}, pattern {pname})");
                }
            }
        }
        if !single {
            all_valid = false;
            invalid_pos.push(i);
        }
    }
    let trivial = (pattern == 0 && n == 1) || (pattern == 1 && kind == "wrong-message" && n == 32 && a == 4);
    ctx.eval(&format!("{n},{nkeys},{pname},{kind},{a},{b},{zero_response}"), !trivial);
    ctx.label(&format!("pattern:{pname}"));
    if pattern >= 1 && pattern <= 2 {
        ctx.label(&format!("kind:{kind}"));
    }
    if n == 0 {
        ctx.label("size=0");
    }
    if n == 1 {
        ctx.label("size=1");
    }
    if n >= 32 {
        ctx.label("size>=32");
    }
    if all_valid && n > 0 {
        ctx.label("valid-batch");
    }
    if random_keys && nkeys >= 2 && n >= 5 {
        ctx.label("keys:irregular-repeats");
    }
    if items.windows(2).any(|w| w[0].vk == w[1].vk) {
        ctx.label("keys:adjacent-equal");
    }
    if invalid_pos.contains(&(n.saturating_sub(1))) && n > 1 {
        ctx.label("invalid-last-position");
    }
    if invalid_pos.contains(&0) && n > 1 {
        ctx.label("invalid-first-position");
    }

    // ---- the batch
    let run_batch = |tape_seed: u64| -> Result<bool, Failure> {
        let mut v = Verifier::<C>::new();
        for it in &items {
            match Item::<C>::new(it.vk, it.sig, &it.msg) {
                Ok(item) => v.queue(item),
                Err(_) => return Ok(false), // an item that cannot even be built makes the batch invalid
            }
        }
        Ok(v.verify(Tape::random(tape_seed)).is_ok())
    };
    let got = run_batch(rng.next())?;
    let want = n > 0 && all_valid;
    let desc = format!("size {n}, {nkeys} keys, pattern {pname}, kind {kind}, positions {a},{b}, invalid items at {invalid_pos:?}");
    if n == 0 {
        ensure!(ctx, !got, "C19/empty-batch-accepted", "the empty batch was accepted");
        return Ok(());
    }
    if want {
        ensure!(ctx, got, "C19/valid-batch-rejected", "a batch whose every item verifies was rejected ({desc})");
    } else if got {
        // 2^-128 soundness error: confirm with a second, independent tape before reporting
        let again = run_batch(rng.next())?;
        ensure!(ctx, !again, "C19/invalid-batch-accepted", "a batch with invalid items was accepted under two independent verifier tapes ({desc})");
        ctx.info("batch-accepted-once-under-one-tape");
    }
    // order independence: reversing the queue does not change the verdict
    {
        let mut v = Verifier::<C>::new();
        let mut ok_items = true;
        for it in items.iter().rev() {
            match Item::<C>::new(it.vk, it.sig, &it.msg) {
                Ok(item) => v.queue(item),
                Err(_) => ok_items = false,
            }
        }
        if ok_items {
            let r = v.verify(Tape::random(rng.next())).is_ok();
            ensure!(ctx, r == want, "C19/verdict-depends-on-order", "reversed batch verdict {r}, expected {want} ({desc})");
        }
    }
    Ok(())
}
