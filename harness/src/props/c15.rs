//! C15 — signing nonces are fresh, hedged, and derived exactly as the RFC prescribes.

use crate::engine::*;
use crate::suites::*;
use crate::tape::{Tape, TapeSpec};
use crate::{dispatch, ensure};
use frost_core as frost;
use frost_core::keys::SigningShare;
use frost_core::round1::{SigningCommitments, SigningNonces};
use proptest::prelude::*;
use serde::{Deserialize, Serialize};
use serde_json::json;

pub struct C15;

#[derive(Clone, Debug, Serialize, Deserialize)]
pub struct Case {
    /// 0 random share, 1 share = 1, 2 share = order-1, 3 share = 0 (a degenerate but representable value)
    pub share_kind: u8,
    pub share_seed: u64,
    pub tape: TapeSpec,
    /// calls: 0 = commit, k>0 = preprocess(k-1)  (so preprocess(0) is included)
    pub calls: Vec<u8>,
    /// which pair / which half / which byte range is perturbed in the metamorphic re-run
    pub perturb_sel: u16,
    pub perturb_half: bool,
    pub seed: u64,
}

impl Property for C15 {
    type Case = Case;
    fn id(&self) -> &'static str {
        "C15"
    }
    fn level(&self) -> &'static str {
        "exploration"
    }
    fn rule(&self) -> String {
        "case = (suite, signing share in {random, 1, order-1}, random-source tape in {pseudo-random, constant byte, period 32, period 64, \
         perturbed}, a sequence of up to 6 commit / preprocess(k) calls with k in 0..8, a perturbation). The tape is read as a byte stream: \
         pair j must consume exactly bytes [64j, 64j+64) and both nonces must equal the reference's nonce_generate (H3(32 random bytes || \
         share)) with commitments G*nonce; the perturbed re-run must change exactly one nonce; a different share must change every nonce; \
         with a pseudo-random tape all nonces are pairwise distinct and non-zero. One evaluation per case. non-trivial = every case (the \
         suite never observes the public entry points' draws); distinct = distinct (suite, share kind, tape kind, call sequence) tuples"
            .into()
    }
    fn assumptions(&self) -> Vec<String> {
        vec![
            "how the implementation groups its RNG calls is not part of the contract; only the bytes consumed from the stream are".into(),
            "expected nonces / commitments come from frostref.py (RFC 9591 §4.1, §6 H3) which is pinned to the RFC vectors".into(),
            "a nonce hashing to zero has negligible probability".into(),
        ]
    }
    fn plan(&self, suite: SuiteId, tier: Tier) -> Vec<(u32, u32)> {
        let per = match (tier, suite.slow()) {
            (Tier::Quick, false) => 40,
            (Tier::Quick, true) => 10,
            (Tier::Thorough, false) => 1000,
            (Tier::Thorough, true) => 200,
        };
        // strata: tape kind (4) x share kind (3)
        (0..12).map(|s| (s, per)).collect()
    }
    fn chunk(&self, suite: SuiteId) -> u32 {
        if suite.slow() { 3 } else { 10 }
    }
    fn strategy(&self, _suite: SuiteId, _tier: Tier, stratum: u32) -> BoxedStrategy<Case> {
        let tape_kind = stratum % 4;
        let share_kind = (stratum / 4) as u8;
        let tape = match tape_kind {
            0 => any::<u64>().prop_map(TapeSpec::Random).boxed(),
            1 => (1u8..=254).prop_map(TapeSpec::Constant).boxed(),
            2 => any::<u64>().prop_map(|seed| TapeSpec::Periodic { period: 32, seed }).boxed(),
            _ => any::<u64>().prop_map(|seed| TapeSpec::Periodic { period: 64, seed }).boxed(),
        };
        (any::<u64>(), tape, proptest::collection::vec(0u8..=9, 1..=6), any::<u16>(), any::<bool>(), any::<u64>())
            .prop_map(move |(share_seed, tape, calls, perturb_sel, perturb_half, seed)| Case { share_kind, share_seed, tape, calls, perturb_sel, perturb_half, seed })
            .boxed()
    }
    fn required_labels(&self, tier: Tier) -> Vec<(String, u64)> {
        let m = tier.pick(50, 500);
        vec![
            ("tape:random".into(), m),
            ("tape:constant".into(), m),
            ("tape:period-32".into(), m),
            ("tape:period-64".into(), m),
            ("call:commit".into(), m),
            ("call:preprocess(0)".into(), m / 5),
            ("call:preprocess(k>=4)".into(), m),
            ("perturbed-rerun".into(), m),
            ("share:order-1".into(), m),
        ]
    }
    fn check(&self, suite: SuiteId, case: &Case, ctx: &mut Ctx) -> CheckResult {
        dispatch!(suite, check(case, ctx))
    }
}

fn tape_name(t: &TapeSpec) -> &'static str {
    match t {
        TapeSpec::Random(_) => "random",
        TapeSpec::Constant(_) => "constant",
        TapeSpec::Periodic { period: 32, .. } => "period-32",
        TapeSpec::Periodic { .. } => "period-64",
        TapeSpec::Perturb { .. } => "perturbed",
        TapeSpec::Force { .. } => "forced",
    }
}

/// run the call sequence; returns all (nonces, returned commitments) in order and the bytes consumed
fn run_calls<C: Suite>(share: &SigningShare<C>, spec: &TapeSpec, calls: &[u8]) -> (Vec<(SigningNonces<C>, SigningCommitments<C>)>, u64, Vec<u64>) {
    let mut tape = Tape::new(spec.clone());
    let mut out = Vec::new();
    let mut per_call = Vec::new();
    for c in calls {
        let before = tape.consumed();
        if *c == 0 {
            let (n, k) = frost::round1::commit::<C, _>(share, &mut tape);
            out.push((n, k));
        } else {
            let (ns, ks) = frost::round1::preprocess::<C, _>(*c - 1, share, &mut tape);
            for (n, k) in ns.into_iter().zip(ks) {
                out.push((n, k));
            }
        }
        per_call.push(tape.consumed() - before);
    }
    (out, tape.consumed(), per_call)
}

fn check<C: Suite>(case: &Case, ctx: &mut Ctx) -> CheckResult {
    let share_sc = match case.share_kind % 3 {
        0 => sc_rand::<C>(case.share_seed),
        1 => one::<C>(),
        _ => neg::<C>(one::<C>()),
    };
    let share = SigningShare::<C>::new(share_sc);
    let sname = ["random", "1", "order-1"][(case.share_kind % 3) as usize];
    ctx.eval(&format!("{sname},{},{:?}", tape_name(&case.tape), case.calls), true);
    ctx.label(&format!("tape:{}", tape_name(&case.tape)));
    ctx.label(&format!("share:{sname}"));
    // the ciphersuite crate's own round1::commit gives what the generic function gives (same stream, same nonces)
    crate::wrappers::differential::<C>(ctx, "C15", crate::wrappers::Part::Sign, case.share_seed)?;
    for c in &case.calls {
        match *c {
            0 => ctx.label("call:commit"),
            1 => ctx.label("call:preprocess(0)"),
            k if k >= 5 => ctx.label("call:preprocess(k>=4)"),
            _ => ctx.label("call:preprocess(1..3)"),
        }
    }
    let desc = format!("share={sname} tape={} calls={:?} (0=commit, k=preprocess(k-1))", tape_name(&case.tape), case.calls);
    let (pairs, consumed, per_call) = run_calls::<C>(&share, &case.tape, &case.calls);
    let expected_pairs: usize = case.calls.iter().map(|c| if *c == 0 { 1 } else { (*c - 1) as usize }).sum();
    ensure!(ctx, pairs.len() == expected_pairs, "C15/number-of-pairs", "{} nonce pairs returned, expected {expected_pairs} ({desc})", pairs.len());
    // each pair draws 32 + 32 new bytes; a batch of k consumes k independent pairs
    ensure!(ctx, consumed == 64 * expected_pairs as u64, "C15/bytes-consumed", "{consumed} random bytes consumed for {expected_pairs} pairs, expected {} ({desc})", 64 * expected_pairs);
    for (c, used) in case.calls.iter().zip(&per_call) {
        let want = if *c == 0 { 64 } else { 64 * (*c as u64 - 1) };
        ensure!(ctx, *used == want, "C15/bytes-consumed", "call {} consumed {used} bytes, expected {want} ({desc})", if *c == 0 { "commit".to_string() } else { format!("preprocess({})", c - 1) });
    }
    // reference nonces from the stream bytes
    let tape = Tape::new(case.tape.clone());
    let randoms: Vec<String> = (0..2 * expected_pairs).map(|i| hex::encode(tape.peek(32 * i as u64, 32))).collect();
    let r = ctx.py.call(&json!({"op":"nonce_many","suite":C::SID.name(),"share":hex::encode(share.serialize()),"randoms":randoms}))?;
    let res = r["results"].as_array().cloned().unwrap_or_default();
    ensure!(ctx, res.len() == 2 * expected_pairs, "C15/harness", "reference returned {} nonces", res.len());
    let mut all_nonces: Vec<Vec<u8>> = Vec::new();
    for (j, (n, k)) in pairs.iter().enumerate() {
        let h = n.hiding().serialize();
        let b = n.binding().serialize();
        ensure!(ctx, Some(hex::encode(&h).as_str()) == res[2 * j][0].as_str(), "C15/nonce-not-rfc", "hiding nonce of pair {j} != H3(stream[{}..{}] || share) ({desc})", 64 * j, 64 * j + 32);
        ensure!(ctx, Some(hex::encode(&b).as_str()) == res[2 * j + 1][0].as_str(), "C15/nonce-not-rfc", "binding nonce of pair {j} != H3(stream[{}..{}] || share) ({desc})", 64 * j + 32, 64 * j + 64);
        let hc = k.hiding().serialize().map(hex::encode).unwrap_or_else(|_| "<identity>".into());
        let bc = k.binding().serialize().map(hex::encode).unwrap_or_else(|_| "<identity>".into());
        ensure!(ctx, Some(hc.as_str()) == res[2 * j][1].as_str(), "C15/commitment-not-G-times-nonce", "hiding commitment of pair {j} != G * nonce ({desc})");
        ensure!(ctx, Some(bc.as_str()) == res[2 * j + 1][1].as_str(), "C15/commitment-not-G-times-nonce", "binding commitment of pair {j} != G * nonce ({desc})");
        // the returned commitments are the ones stored in the nonces
        ensure!(ctx, n.commitments() == k, "C15/returned-commitments-differ", "returned commitments differ from the ones stored with the nonces (pair {j}, {desc})");
        ensure!(ctx, sc_from_bytes::<C>(&h) != Some(zero::<C>()) && sc_from_bytes::<C>(&b) != Some(zero::<C>()), "C15/zero-nonce", "a nonce is zero (pair {j}, {desc})");
        ensure!(ctx, k.hiding().value() != ident::<C>() && k.binding().value() != ident::<C>(), "C15/identity-commitment", "a commitment is the identity (pair {j}, {desc})");
        all_nonces.push(h);
        all_nonces.push(b);
    }
    match &case.tape {
        TapeSpec::Random(_) => {
            // fresh: all 2k nonces pairwise distinct
            let mut sorted = all_nonces.clone();
            sorted.sort();
            sorted.dedup();
            ensure!(ctx, sorted.len() == all_nonces.len(), "C15/nonce-repeated", "two nonces coincide although the random bytes differ ({desc})");
        }
        TapeSpec::Constant(_) | TapeSpec::Periodic { period: 32, .. } => {
            // expected consequence of the derivation: equal random bytes and equal share give equal nonces
            for j in 0..pairs.len() {
                ensure!(ctx, all_nonces[2 * j] == all_nonces[2 * j + 1], "C15/nonce-not-function-of-bytes-and-share", "equal random bytes gave different hiding/binding nonces ({desc})");
            }
        }
        _ => {}
    }
    if expected_pairs == 0 {
        return Ok(());
    }
    // metamorphic 1: perturb the random bytes of one nonce: exactly that nonce (and its commitment) changes
    {
        ctx.label("perturbed-rerun");
        let j = idx(case.perturb_sel, expected_pairs);
        let half = case.perturb_half as u64;
        let start = 64 * j as u64 + 32 * half + (case.seed % 32);
        let len = 1 + (case.seed >> 8) % (32 - (case.seed % 32));
        let spec2 = case.tape.perturb(start, len, case.seed);
        let (pairs2, consumed2, _) = run_calls::<C>(&share, &spec2, &case.calls);
        ensure!(ctx, consumed2 == consumed && pairs2.len() == pairs.len(), "C15/bytes-consumed", "perturbed run consumed {consumed2} bytes ({desc})");
        for (i, ((n1, k1), (n2, k2))) in pairs.iter().zip(&pairs2).enumerate() {
            for (hf, a, b, ca, cb) in [
                (0u64, n1.hiding().serialize(), n2.hiding().serialize(), k1.hiding(), k2.hiding()),
                (1u64, n1.binding().serialize(), n2.binding().serialize(), k1.binding(), k2.binding()),
            ] {
                let touched = i == j && hf == half;
                if touched {
                    ensure!(ctx, a != b && ca != cb, "C15/nonce-ignores-random-bytes", "changing stream bytes [{start},{}) did not change the {} nonce of pair {i} ({desc})", start + len, if hf == 0 { "hiding" } else { "binding" });
                } else {
                    ensure!(ctx, a == b && ca == cb, "C15/nonce-depends-on-foreign-bytes", "changing stream bytes [{start},{}) (pair {j}, {} half) changed the {} nonce of pair {i} ({desc})", start + len, if half == 0 { "hiding" } else { "binding" }, if hf == 0 { "hiding" } else { "binding" });
                }
            }
        }
    }
    // metamorphic 2: another share with the same tape changes every nonce (hedging)
    {
        let share2 = SigningShare::<C>::new(share_sc + one::<C>());
        let (pairs2, _, _) = run_calls::<C>(&share2, &case.tape, &case.calls);
        for (i, ((n1, _), (n2, _))) in pairs.iter().zip(&pairs2).enumerate() {
            ensure!(ctx, n1.hiding().serialize() != n2.hiding().serialize() && n1.binding().serialize() != n2.binding().serialize(), "C15/share-not-mixed-in", "pair {i}: the nonce does not depend on the signing share ({desc})");
        }
    }
    // reproducibility: same tape and share give the same bytes
    {
        let (pairs2, _, _) = run_calls::<C>(&share, &case.tape, &case.calls);
        for ((n1, _), (n2, _)) in pairs.iter().zip(&pairs2) {
            ensure!(ctx, n1 == n2, "C15/not-reproducible", "same random bytes and share gave different nonces: another entropy source is used ({desc})");
        }
    }
    Ok(())
}
