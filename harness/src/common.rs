//! Shared plain-data case components, their proptest strategies, and interpreters that turn
//! them into library objects deterministically (DESIGN.md §2.3).

use crate::engine::{idx, Failure};
use crate::suites::*;
use crate::tape::{Sm, Tape};
use frost_core as frost;
use frost_core::keys::dkg;
use frost_core::keys::{IdentifierList, KeyPackage, PublicKeyPackage, SecretShare};
use frost_core::{Identifier, SigningKey, SigningPackage};
use proptest::prelude::*;
use serde::{Deserialize, Serialize};
use std::collections::BTreeMap;

pub type Id<C> = Identifier<C>;

pub fn fail<T>(key: &str, msg: String) -> Result<T, Failure> {
    Err(Failure { key: key.to_string(), msg })
}

// ---------------------------------------------------------------------------------------------
// shape

#[derive(Clone, Copy, Debug, Serialize, Deserialize, PartialEq, Eq)]
pub struct Shape {
    pub n: u16,
    pub t: u16,
}

/// 2 <= t <= n <= nmax. Weighted so that t = n, t = 2 and larger groups are all frequent.
pub fn shape_strategy(nmax: u16) -> BoxedStrategy<Shape> {
    let nmax = nmax.max(2);
    (2..=nmax, any::<u16>(), 0u8..10)
        .prop_map(move |(n, ti, class)| {
            let t = match class {
                0 | 1 => n,                      // t = n
                2 => 2,                          // t = 2
                _ => 2 + idx(ti, (n - 1) as usize) as u16, // uniform in 2..=n
            };
            Shape { n, t }
        })
        .boxed()
}

// ---------------------------------------------------------------------------------------------
// identifiers

#[derive(Clone, Copy, Debug, Serialize, Deserialize, PartialEq, Eq, PartialOrd, Ord)]
pub enum IdStyle {
    /// 1..=n through IdentifierList::Default / Identifier::try_from(u16)
    Default,
    /// distinct u16 values in 1..=300
    SmallU16,
    /// drawn from {1, 2, 255, 256, 257, 32768, 65534, 65535, ...}
    Extremes,
    /// Identifier::derive of generated strings
    Derived,
    /// Identifier::deserialize of canonical scalar encodings (random, 2^16, 2^64, order-1 ...)
    Scalar,
    /// a mix of all of the above
    Mixed,
}
pub const ID_STYLES: [IdStyle; 6] =
    [IdStyle::Default, IdStyle::SmallU16, IdStyle::Extremes, IdStyle::Derived, IdStyle::Scalar, IdStyle::Mixed];

impl IdStyle {
    pub fn name(self) -> &'static str {
        match self {
            IdStyle::Default => "default",
            IdStyle::SmallU16 => "small-u16",
            IdStyle::Extremes => "extremes",
            IdStyle::Derived => "derived",
            IdStyle::Scalar => "scalar",
            IdStyle::Mixed => "mixed",
        }
    }
}

#[derive(Clone, Copy, Debug, Serialize, Deserialize, PartialEq, Eq)]
pub struct IdSpec {
    pub style: IdStyle,
    pub seed: u64,
}

pub fn idspec_strategy(style: Option<IdStyle>) -> BoxedStrategy<IdSpec> {
    match style {
        Some(st) => any::<u64>().prop_map(move |seed| IdSpec { style: st, seed }).boxed(),
        None => (0usize..ID_STYLES.len(), any::<u64>())
            .prop_map(|(i, seed)| IdSpec { style: ID_STYLES[i], seed })
            .boxed(),
    }
}

const EXTREMES: [u16; 12] = [1, 2, 3, 127, 128, 255, 256, 257, 32767, 32768, 65534, 65535];

fn id_u16<C: Suite>(v: u16) -> Id<C> {
    Id::<C>::try_from(v).expect("non-zero u16 identifier")
}

/// special scalar values as identifiers: 2^16, 2^16+1, 2^32, 2^64-1, 2^k, order-1, order-2
fn id_special_scalar<C: Suite>(k: u64) -> Id<C> {
    let two16 = sc_u64::<C>(1 << 16);
    let s = match k % 8 {
        0 => two16,
        1 => two16 + one::<C>(),
        2 => sc_u64::<C>(1 << 32),
        3 => sc_u64::<C>(u64::MAX),
        4 => sc_u64::<C>(u64::MAX) + one::<C>(),                      // 2^64
        5 => {
            let x = sc_u64::<C>(u64::MAX) + one::<C>();
            x * x                                                      // 2^128
        }
        6 => neg::<C>(one::<C>()),                                     // order - 1
        _ => neg::<C>(sc_u64::<C>(2)),                                 // order - 2
    };
    Id::<C>::new(s).expect("non-zero")
}

fn id_candidate<C: Suite>(style: IdStyle, rng: &mut Sm, i: usize) -> Id<C> {
    match style {
        IdStyle::Default => id_u16::<C>(i as u16 + 1),
        IdStyle::SmallU16 => id_u16::<C>(1 + rng.below(300) as u16),
        IdStyle::Extremes => id_u16::<C>(EXTREMES[rng.below(EXTREMES.len() as u64) as usize]),
        IdStyle::Derived => {
            let len = rng.below(24) as usize;
            let s = rng.bytes(len);
            Id::<C>::derive(&s).expect("derive is supported by all six suites")
        }
        IdStyle::Scalar => {
            if rng.below(3) == 0 {
                id_special_scalar::<C>(rng.next())
            } else {
                // full-width random canonical scalar through the public byte decoder
                let s = sc_rand_nonzero::<C>(rng.next());
                Id::<C>::deserialize(&sc_bytes::<C>(&s)).expect("canonical scalar decodes")
            }
        }
        IdStyle::Mixed => {
            let st = [IdStyle::SmallU16, IdStyle::Extremes, IdStyle::Derived, IdStyle::Scalar][rng.below(4) as usize];
            id_candidate::<C>(st, rng, i)
        }
    }
}

/// n pairwise distinct non-zero identifiers, **in generation order** (not sorted).
pub fn make_ids<C: Suite>(spec: IdSpec, n: usize) -> Vec<Id<C>> {
    let mut rng = Sm(spec.seed ^ 0x1d5_1d5);
    let mut out: Vec<Id<C>> = Vec::with_capacity(n);
    let mut guard = 0;
    while out.len() < n {
        let style = if guard > 40 * n + 200 { IdStyle::SmallU16 } else { spec.style };
        let style = if guard > 200 * n + 2000 { IdStyle::Derived } else { style };
        let mut c = id_candidate::<C>(style, &mut rng, out.len());
        // full-width styles: one candidate in four is a SIBLING of an identifier already chosen - it differs from it
        // only in the most significant bytes of the encoding (x + k * 2^(8*(len-8)))
        if matches!(spec.style, IdStyle::Scalar | IdStyle::Mixed) && !out.is_empty() && rng.below(4) == 0 {
            let base = out[rng.below(out.len() as u64) as usize];
            let e = 8 * (sc_len::<C>() - 8);
            let two64 = sc_u64::<C>(u64::MAX) + one::<C>();
            let mut step = sc_u64::<C>(1u64 << (e % 64));
            for _ in 0..e / 64 {
                step = step * two64;
            }
            let k = sc_u64::<C>(1 + rng.below(5));
            if let Ok(sib) = Id::<C>::new(base.to_scalar() + step * k) {
                c = sib;
            }
        }
        guard += 1;
        if !out.contains(&c) {
            out.push(c);
        }
    }
    out
}

/// an identifier that is not in `taken`
pub fn fresh_id<C: Suite>(taken: &[Id<C>], spec: IdSpec) -> Id<C> {
    let mut rng = Sm(spec.seed ^ 0xf4e5_4);
    let mut guard = 0;
    loop {
        let style = if spec.style == IdStyle::Default { IdStyle::SmallU16 } else { spec.style };
        let style = if guard > 500 { IdStyle::Derived } else { style };
        let c = id_candidate::<C>(style, &mut rng, 0);
        guard += 1;
        if !taken.contains(&c) {
            return c;
        }
    }
}

pub fn id_hex<C: Suite>(i: &Id<C>) -> String {
    hex::encode(i.serialize())
}

// ---------------------------------------------------------------------------------------------
// messages

#[derive(Clone, Debug, Serialize, Deserialize, PartialEq, Eq)]
pub enum MsgSpec {
    Empty,
    Short(Vec<u8>),
    Sized { len: u32, seed: u64 },
}
impl MsgSpec {
    pub fn bytes(&self) -> Vec<u8> {
        match self {
            MsgSpec::Empty => vec![],
            MsgSpec::Short(v) => v.clone(),
            MsgSpec::Sized { len, seed } => Sm(*seed).bytes(*len as usize),
        }
    }
    pub fn class(&self) -> &'static str {
        match self {
            MsgSpec::Empty => "empty",
            MsgSpec::Short(v) if v.len() <= 1 => "tiny",
            MsgSpec::Short(_) => "short",
            MsgSpec::Sized { len, .. } if *len >= 1024 => "long",
            MsgSpec::Sized { len, .. } if *len >= 138 => "medium",
            MsgSpec::Sized { .. } => "block-boundary",
        }
    }
}
const BOUNDARY_LENS: [u32; 14] = [1, 55, 56, 63, 64, 65, 111, 112, 127, 128, 129, 135, 136, 137];

pub fn msg_strategy(max_long: u32) -> BoxedStrategy<MsgSpec> {
    prop_oneof![
        2 => Just(MsgSpec::Empty),
        4 => proptest::collection::vec(any::<u8>(), 0..48).prop_map(MsgSpec::Short),
        3 => (0usize..BOUNDARY_LENS.len(), any::<u64>()).prop_map(|(i, seed)| MsgSpec::Sized { len: BOUNDARY_LENS[i], seed }),
        2 => (1024u32..=max_long.max(1025), any::<u64>()).prop_map(|(len, seed)| MsgSpec::Sized { len, seed }),
        2 => (138u32..1024, any::<u64>()).prop_map(|(len, seed)| MsgSpec::Sized { len, seed }),
    ]
    .boxed()
}
pub fn msg_short_strategy() -> BoxedStrategy<MsgSpec> {
    prop_oneof![
        1 => Just(MsgSpec::Empty),
        4 => proptest::collection::vec(any::<u8>(), 0..40).prop_map(MsgSpec::Short),
    ]
    .boxed()
}

// ---------------------------------------------------------------------------------------------
// signer subsets

#[derive(Clone, Copy, Debug, Serialize, Deserialize, PartialEq, Eq)]
pub enum SubsetClass {
    Prefix,
    Suffix,
    Scattered,
    All,
}
#[derive(Clone, Copy, Debug, Serialize, Deserialize, PartialEq, Eq)]
pub struct SubsetSpec {
    pub class: SubsetClass,
    /// selects |S| - t in 0..=n-t monotonically
    pub extra: u16,
    pub seed: u64,
}
pub fn subset_strategy(class: Option<SubsetClass>) -> BoxedStrategy<SubsetSpec> {
    let cl = match class {
        Some(c) => Just(c).boxed(),
        None => prop_oneof![
            Just(SubsetClass::Prefix),
            Just(SubsetClass::Suffix),
            Just(SubsetClass::Scattered),
            Just(SubsetClass::Scattered),
            Just(SubsetClass::All)
        ]
        .boxed(),
    };
    (cl, any::<u16>(), any::<u64>()).prop_map(|(class, extra, seed)| SubsetSpec { class, extra, seed }).boxed()
}

/// indices (into the *sorted* identifier list) of a signer set with lo <= |S| <= n, constructed
pub fn make_subset(n: usize, lo: usize, spec: SubsetSpec) -> Vec<usize> {
    let lo = lo.min(n);
    let size = match spec.class {
        SubsetClass::All => n,
        _ => lo + idx(spec.extra, n - lo + 1),
    };
    match spec.class {
        SubsetClass::All => (0..n).collect(),
        SubsetClass::Prefix => (0..size).collect(),
        SubsetClass::Suffix => (n - size..n).collect(),
        SubsetClass::Scattered => {
            // partial Fisher-Yates driven by the seed, then sorted
            let mut rng = Sm(spec.seed);
            let mut all: Vec<usize> = (0..n).collect();
            for i in 0..size {
                let j = i + rng.below((n - i) as u64) as usize;
                all.swap(i, j);
            }
            let mut s: Vec<usize> = all[..size].to_vec();
            s.sort();
            s
        }
    }
}
/// the `extra` value for which `make_subset` yields exactly lo + k members (k < len)
pub fn extra_for(k: usize, len: usize) -> u16 {
    if len == 0 { return 0; }
    ((((k as u64) << 16) + len as u64 - 1) / len as u64).min(65535) as u16
}
pub fn subset_is_prefix(s: &[usize]) -> bool {
    s.iter().enumerate().all(|(i, v)| i == *v)
}

// ---------------------------------------------------------------------------------------------
// key generation

#[derive(Clone, Copy, Debug, Serialize, Deserialize, PartialEq, Eq)]
pub enum KeySource {
    Dealer,
    Split,
    Dkg,
    /// dealer keys, then one trusted-dealer refresh of all participants (multi-step key history)
    DealerRefreshed,
    /// DKG keys, then one distributed refresh of all participants
    DkgRefreshed,
    /// dealer keys where one participant's key package was lost and repaired by t helpers
    Repaired,
    /// a key-lifecycle history: base keys (dealer or DKG) followed by up to four operations from
    /// {dealer refresh, distributed refresh, repair of one participant, encode/decode of every package};
    /// the code selects base and operations, 0 = derive the code from the case seed
    History(u16),
}
impl KeySource {
    pub fn name(self) -> &'static str {
        match self {
            KeySource::Dealer => "dealer",
            KeySource::Split => "split",
            KeySource::Dkg => "dkg",
            KeySource::DealerRefreshed => "dealer+refresh",
            KeySource::DkgRefreshed => "dkg+refresh",
            KeySource::Repaired => "dealer+repair",
            KeySource::History(_) => "history",
        }
    }
    /// sources whose cost grows like a DKG (quadratic in n): generators bound n for them
    pub fn uses_dkg(self) -> bool {
        matches!(self, KeySource::Dkg | KeySource::DkgRefreshed | KeySource::History(_))
    }
}

pub struct DkgRun<C: Suite> {
    pub r1_secret: BTreeMap<Id<C>, dkg::round1::SecretPackage<C>>,
    pub r1_pkg: BTreeMap<Id<C>, dkg::round1::Package<C>>,
    pub r2_secret: BTreeMap<Id<C>, dkg::round2::SecretPackage<C>>,
    /// r2_pkg[sender][receiver]
    pub r2_pkg: BTreeMap<Id<C>, BTreeMap<Id<C>, dkg::round2::Package<C>>>,
}

pub struct Keys<C: Suite> {
    /// sorted identifiers
    pub ids: Vec<Id<C>>,
    pub shape: Shape,
    pub kps: BTreeMap<Id<C>, KeyPackage<C>>,
    pub pubkeys: PublicKeyPackage<C>,
    pub secret_shares: Option<BTreeMap<Id<C>, SecretShare<C>>>,
    pub signing_key: Option<SigningKey<C>>,
    pub dkg: Option<DkgRun<C>>,
    pub source: KeySource,
}

pub fn dealer_keys<C: Suite>(
    shape: Shape,
    ids: IdSpec,
    source: KeySource,
    seed: u64,
    key: &str,
) -> Result<Keys<C>, Failure> {
    let mut tape = Tape::random(seed ^ 0xdea1e5);
    let idv = make_ids::<C>(ids, shape.n as usize);
    let list = if ids.style == IdStyle::Default { IdentifierList::Default } else { IdentifierList::Custom(&idv) };
    let mut signing_key = None;
    let r = match source {
        KeySource::Split => {
            let sk = SigningKey::<C>::new(&mut Tape::random(seed ^ 0x5eed_4e7));
            let r = frost::keys::split(&sk, shape.n, shape.t, list, &mut tape);
            signing_key = Some(sk);
            r
        }
        _ => frost::keys::generate_with_dealer::<C, _>(shape.n, shape.t, list, &mut tape),
    };
    let (shares, pubkeys) = match r {
        Ok(x) => x,
        Err(e) => return fail(&format!("{key}/keygen"), format!("dealer keygen failed for {shape:?} {ids:?}: {e:?}")),
    };
    let mut kps = BTreeMap::new();
    for (id, sh) in &shares {
        match KeyPackage::try_from(sh.clone()) {
            Ok(kp) => {
                kps.insert(*id, kp);
            }
            Err(e) => return fail(&format!("{key}/keygen"), format!("honest dealer share rejected for {}: {e:?}", id_hex::<C>(id))),
        }
    }
    let mut sorted = idv.clone();
    sorted.sort();
    Ok(Keys {
        ids: sorted,
        shape,
        kps,
        pubkeys,
        secret_shares: Some(shares),
        signing_key,
        dkg: None,
        source,
    })
}

/// the tape participant #k (generation order) uses in `dkg_rounds`
pub fn dkg_part1_tape(seed: u64, k: usize) -> Tape {
    Tape::random(seed ^ (0xd6_0000 + k as u64).wrapping_mul(0x9e37_79b9))
}

/// run parts 1 and 2 of the DKG for all participants (no part 3)
pub fn dkg_rounds<C: Suite>(shape: Shape, idv: &[Id<C>], seed: u64, key: &str) -> Result<DkgRun<C>, Failure> {
    let mut r1_secret = BTreeMap::new();
    let mut r1_pkg = BTreeMap::new();
    for (k, id) in idv.iter().enumerate() {
        let tape = dkg_part1_tape(seed, k);
        match dkg::part1::<C, _>(*id, shape.n, shape.t, tape) {
            Ok((s, p)) => {
                r1_secret.insert(*id, s);
                r1_pkg.insert(*id, p);
            }
            Err(e) => return fail(&format!("{key}/dkg-part1"), format!("part1 failed: {e:?}")),
        }
    }
    let mut r2_secret = BTreeMap::new();
    let mut r2_pkg = BTreeMap::new();
    for id in idv {
        let others: BTreeMap<_, _> = r1_pkg.iter().filter(|(k, _)| *k != id).map(|(k, v)| (*k, v.clone())).collect();
        match dkg::part2(r1_secret[id].clone(), &others) {
            Ok((s, p)) => {
                r2_secret.insert(*id, s);
                r2_pkg.insert(*id, p);
            }
            Err(e) => return fail(&format!("{key}/dkg-part2"), format!("honest part2 failed for {}: {e:?}", id_hex::<C>(id))),
        }
    }
    Ok(DkgRun { r1_secret, r1_pkg, r2_secret, r2_pkg })
}

pub fn dkg_inputs_for<C: Suite>(
    run: &DkgRun<C>,
    me: &Id<C>,
) -> (BTreeMap<Id<C>, dkg::round1::Package<C>>, BTreeMap<Id<C>, dkg::round2::Package<C>>) {
    let r1: BTreeMap<_, _> = run.r1_pkg.iter().filter(|(k, _)| *k != me).map(|(k, v)| (*k, v.clone())).collect();
    let r2: BTreeMap<_, _> = run
        .r2_pkg
        .iter()
        .filter(|(k, _)| *k != me)
        .filter_map(|(k, m)| m.get(me).map(|p| (*k, p.clone())))
        .collect();
    (r1, r2)
}

pub fn dkg_keys<C: Suite>(shape: Shape, ids: IdSpec, seed: u64, key: &str) -> Result<Keys<C>, Failure> {
    let idv = make_ids::<C>(ids, shape.n as usize);
    let run = dkg_rounds::<C>(shape, &idv, seed, key)?;
    let mut kps = BTreeMap::new();
    let mut pubkeys: Option<PublicKeyPackage<C>> = None;
    for id in &idv {
        let (r1, r2) = dkg_inputs_for(&run, id);
        match dkg::part3(&run.r2_secret[id], &r1, &r2) {
            Ok((kp, pk)) => {
                if let Some(prev) = &pubkeys {
                    if prev != &pk {
                        return fail(&format!("{key}/dkg-pubkeys-differ"), format!("participants hold different public key packages ({shape:?} {ids:?})"));
                    }
                }
                pubkeys = Some(pk);
                kps.insert(*id, kp);
            }
            Err(e) => return fail(&format!("{key}/dkg-part3"), format!("honest part3 failed for {}: {e:?}", id_hex::<C>(id))),
        }
    }
    let mut sorted = idv.clone();
    sorted.sort();
    Ok(Keys {
        ids: sorted,
        shape,
        kps,
        pubkeys: pubkeys.unwrap(),
        secret_shares: None,
        signing_key: None,
        dkg: Some(run),
        source: KeySource::Dkg,
    })
}

pub fn make_keys<C: Suite>(shape: Shape, ids: IdSpec, source: KeySource, seed: u64, key: &str) -> Result<Keys<C>, Failure> {
    match source {
        KeySource::Dkg => dkg_keys::<C>(shape, ids, seed, key),
        KeySource::DealerRefreshed => {
            let mut k = dealer_keys::<C>(shape, ids, KeySource::Dealer, seed, key)?;
            refresh_all::<C>(&mut k, false, seed ^ 0x4ef4, key)?;
            k.source = source;
            Ok(k)
        }
        KeySource::DkgRefreshed => {
            let mut k = dkg_keys::<C>(shape, ids, seed, key)?;
            refresh_all::<C>(&mut k, true, seed ^ 0x4ef5, key)?;
            k.source = source;
            Ok(k)
        }
        KeySource::Repaired => {
            let mut k = dealer_keys::<C>(shape, ids, KeySource::Dealer, seed, key)?;
            repair_one::<C>(&mut k, seed ^ 0x4e9a, key)?;
            k.source = source;
            Ok(k)
        }
        KeySource::History(code) => history_keys::<C>(shape, ids, code, seed, key),
        s => dealer_keys::<C>(shape, ids, s, seed, key),
    }
}

pub const HISTORY_OPS: [&str; 5] = ["end", "dealer-refresh", "distributed-refresh", "repair", "encode-decode"];

/// decode a history code: (base is DKG, operations)
pub fn history_ops(code: u16, seed: u64) -> (bool, Vec<u8>) {
    let code = if code == 0 { 1 + (crate::engine::fnv(&format!("history/{seed}")) % 1249) as u16 } else { code };
    let base_dkg = (code / 625) & 1 == 1;
    let mut c = code % 625;
    let mut ops = Vec::new();
    for _ in 0..4 {
        ops.push((c % 5) as u8);
        c /= 5;
    }
    // "end" digits are skipped (not terminators) so that most codes give 3-4 operations
    ops.retain(|o| *o != 0);
    if ops.is_empty() {
        ops.push(1 + (seed % 4) as u8);
    }
    (base_dkg, ops)
}

pub fn history_keys<C: Suite>(shape: Shape, ids: IdSpec, code: u16, seed: u64, key: &str) -> Result<Keys<C>, Failure> {
    let (base_dkg, ops) = history_ops(code, seed);
    let mut k = if base_dkg { dkg_keys::<C>(shape, ids, seed, key)? } else { dealer_keys::<C>(shape, ids, KeySource::Dealer, seed, key)? };
    let vk0 = *k.pubkeys.verifying_key();
    for (i, op) in ops.iter().enumerate() {
        let s = seed ^ (0x4157 + i as u64).wrapping_mul(0x9e37_79b9_7f4a_7c15);
        match op {
            1 => refresh_all::<C>(&mut k, false, s, key)?,
            2 => refresh_all::<C>(&mut k, true, s, key)?,
            3 => {
                // the repaired participant rotates with the step
                let pos = (s >> 20) as usize % k.ids.len();
                repair_at::<C>(&mut k, pos, s, key)?
            }
            _ => {
                // every package goes through its wire encoding
                let mut kps = BTreeMap::new();
                for (id, kp) in &k.kps {
                    let b = kp.serialize().map_err(|e| Failure { key: format!("{key}/history"), msg: format!("key package does not serialize: {e:?}") })?;
                    let kp2 = KeyPackage::<C>::deserialize(&b).map_err(|e| Failure { key: format!("{key}/history"), msg: format!("key package does not deserialize after {:?}: {e:?}", &ops[..i]) })?;
                    kps.insert(*id, kp2);
                }
                let b = k.pubkeys.serialize().map_err(|e| Failure { key: format!("{key}/history"), msg: format!("public key package does not serialize: {e:?}") })?;
                k.pubkeys = PublicKeyPackage::<C>::deserialize(&b).map_err(|e| Failure { key: format!("{key}/history"), msg: format!("public key package does not deserialize: {e:?}") })?;
                k.kps = kps;
            }
        }
        if *k.pubkeys.verifying_key() != vk0 {
            return fail(&format!("{key}/history-changes-group-key"), format!("the group key changed in step {i} ({}) of history {:?}", HISTORY_OPS[*op as usize], ops.iter().map(|o| HISTORY_OPS[*o as usize]).collect::<Vec<_>>()));
        }
    }
    k.secret_shares = None;
    k.signing_key = None;
    k.dkg = None;
    k.source = KeySource::History(code);
    Ok(k)
}

/// one honest refresh of ALL participants (nobody removed); replaces key packages and public key package
pub fn refresh_all<C: Suite>(k: &mut Keys<C>, dkg_refresh: bool, seed: u64, key: &str) -> Result<(), Failure> {
    use frost_core::keys::refresh;
    let t = k.shape.t;
    // the caller passes the identifiers in non-ascending order
    let mut order: Vec<Id<C>> = k.ids.clone();
    order.reverse();
    let mut new_kps = BTreeMap::new();
    if dkg_refresh {
        let run = crate::props::c10::dkg_refresh_rounds::<C>(&order, t, seed, key)?;
        let mut pk_new = None;
        for id in &order {
            let (r1, r2) = crate::props::c10::dkg_refresh_inputs(&run, id);
            match refresh::refresh_dkg_shares(&run.r2_secret[id], &r1, &r2, k.pubkeys.clone(), k.kps[id].clone()) {
                Ok((kp, pk)) => {
                    new_kps.insert(*id, kp);
                    pk_new = Some(pk);
                }
                Err(e) => return fail(&format!("{key}/refresh"), format!("honest distributed refresh failed: {e:?}")),
            }
        }
        k.pubkeys = pk_new.expect("at least two participants");
    } else {
        let (shares, pk) = refresh::compute_refreshing_shares::<C, _>(k.pubkeys.clone(), &order, &mut Tape::random(seed))
            .map_err(|e| Failure { key: format!("{key}/refresh"), msg: format!("honest dealer refresh failed: {e:?}") })?;
        for id in &order {
            let sh = shares.iter().find(|s| s.identifier() == id).ok_or_else(|| Failure { key: format!("{key}/refresh"), msg: "no refreshing share for a participant".into() })?;
            match refresh::refresh_share(sh.clone(), &k.kps[id]) {
                Ok(kp) => {
                    new_kps.insert(*id, kp);
                }
                Err(e) => return fail(&format!("{key}/refresh"), format!("honest refresh_share failed: {e:?}")),
            }
        }
        k.pubkeys = pk;
    }
    k.kps = new_kps;
    k.secret_shares = None;
    k.signing_key = None;
    k.dkg = None;
    Ok(())
}

/// the participant with the highest identifier loses its key package and repairs it with the t lowest helpers
pub fn repair_one<C: Suite>(k: &mut Keys<C>, seed: u64, key: &str) -> Result<(), Failure> {
    let last = k.ids.len() - 1;
    repair_at::<C>(k, last, seed, key)
}

/// the participant at position `pos` loses its key package and repairs it with the first t other participants
pub fn repair_at<C: Suite>(k: &mut Keys<C>, pos: usize, seed: u64, key: &str) -> Result<(), Failure> {
    use frost_core::keys::repairable::{repair_share_part1, repair_share_part2, repair_share_part3, Delta, Sigma};
    let t = k.shape.t as usize;
    if k.ids.len() <= t {
        return Ok(()); // no room for t helpers next to the repaired participant: nothing happens
    }
    let target = k.ids[pos % k.ids.len()];
    let mut helpers: Vec<Id<C>> = k.ids.iter().filter(|i| **i != target).take(t).copied().collect();
    helpers.reverse();
    let mut deltas: BTreeMap<Id<C>, BTreeMap<Id<C>, Delta<C>>> = BTreeMap::new();
    for (j, h) in helpers.iter().enumerate() {
        let d = repair_share_part1::<C, _>(&helpers, &k.kps[h], &mut Tape::random(seed ^ (j as u64 + 1)), target)
            .map_err(|e| Failure { key: format!("{key}/repair"), msg: format!("honest repair part1 failed: {e:?}") })?;
        deltas.insert(*h, d);
    }
    let mut sigmas: Vec<Sigma<C>> = Vec::new();
    for j in &helpers {
        let recv: Vec<Delta<C>> = helpers.iter().filter_map(|i| deltas[i].get(j).copied()).collect();
        sigmas.push(repair_share_part2::<C>(&recv));
    }
    let kp = repair_share_part3::<C>(&sigmas, target, &k.pubkeys).map_err(|e| Failure { key: format!("{key}/repair"), msg: format!("honest repair part3 failed: {e:?}") })?;
    k.kps.insert(target, kp);
    k.secret_shares = None;
    k.signing_key = None;
    Ok(())
}

// ---------------------------------------------------------------------------------------------
// signing sessions

pub struct Session<C: Suite> {
    pub signers: Vec<Id<C>>,
    pub nonces: BTreeMap<Id<C>, frost::round1::SigningNonces<C>>,
    pub commitments: BTreeMap<Id<C>, frost::round1::SigningCommitments<C>>,
    pub package: SigningPackage<C>,
    pub shares: BTreeMap<Id<C>, frost::round2::SignatureShare<C>>,
    pub message: Vec<u8>,
}

/// commit for every signer (nonces from a tape derived from `seed` and the signer position)
pub fn commit_all<C: Suite>(
    kps: &BTreeMap<Id<C>, KeyPackage<C>>,
    signers: &[Id<C>],
    seed: u64,
) -> (BTreeMap<Id<C>, frost::round1::SigningNonces<C>>, BTreeMap<Id<C>, frost::round1::SigningCommitments<C>>) {
    let mut nonces = BTreeMap::new();
    let mut comms = BTreeMap::new();
    for (k, id) in signers.iter().enumerate() {
        let mut tape = Tape::random(seed ^ (0xc0_0000 + k as u64).wrapping_mul(0x2545_f491_4f6c_dd1d));
        // every third signer takes its nonces from a pre-processed batch (one-round FROST): pair j of 2..4
        let (n, c) = if (k as u64 + seed) % 3 == 1 {
            let num = 2 + ((seed >> 9) as usize + k) % 3;
            let j = ((seed >> 17) as usize + k) % num;
            let (mut ns, mut cs) = frost::round1::preprocess(num as u8, kps[id].signing_share(), &mut tape);
            if ns.len() == num && cs.len() == num {
                (ns.swap_remove(j), cs.swap_remove(j))
            } else {
                frost::round1::commit(kps[id].signing_share(), &mut tape)
            }
        } else {
            frost::round1::commit(kps[id].signing_share(), &mut tape)
        };
        nonces.insert(*id, n);
        comms.insert(*id, c);
    }
    (nonces, comms)
}

/// full honest session: commit, build package, sign. Any error is a failure keyed `<key>/sign`.
pub fn run_session<C: Suite>(
    kps: &BTreeMap<Id<C>, KeyPackage<C>>,
    signers: &[Id<C>],
    message: &[u8],
    seed: u64,
    key: &str,
) -> Result<Session<C>, Failure> {
    let (nonces, commitments) = commit_all::<C>(kps, signers, seed);
    let package = SigningPackage::new(commitments.clone(), message);
    let mut shares = BTreeMap::new();
    for id in signers {
        match frost::round2::sign(&package, &nonces[id], &kps[id]) {
            Ok(s) => {
                shares.insert(*id, s);
            }
            Err(e) => {
                return fail(&format!("{key}/sign"), format!("honest signer {} failed to sign: {e:?}", id_hex::<C>(id)));
            }
        }
    }
    Ok(Session { signers: signers.to_vec(), nonces, commitments, package, shares, message: message.to_vec() })
}

/// The suite's ordinary single-signer verification by implementations *other than* frost:
/// the linked Rust verifier (if any) and, when `py` is given, the Python reference.
pub fn independent_verify<C: Suite>(
    ctx: &mut crate::engine::Ctx,
    vk: &frost::VerifyingKey<C>,
    msg: &[u8],
    sig_bytes: &[u8],
    use_python: bool,
) -> Result<Option<bool>, Failure> {
    let vkb = vk.serialize().map_err(|e| Failure { key: "harness/vk-serialize".into(), msg: format!("{e:?}") })?;
    let mut verdict: Option<bool> = None;
    if let Some(v) = C::independent_verify(&vkb, msg, sig_bytes) {
        verdict = Some(v);
    }
    if use_python {
        let r = ctx.py.call(&serde_json::json!({
            "op": "verify", "suite": C::SID.name(),
            "vk": hex::encode(&vkb), "msg": hex::encode(msg), "sig": hex::encode(sig_bytes),
        }))?;
        let pv = r["ok"].as_bool().unwrap_or(false);
        verdict = Some(verdict.unwrap_or(true) && pv);
        if let Some(rv) = C::independent_verify(&vkb, msg, sig_bytes) {
            if rv != pv {
                // two independent verifiers disagree: report as inconclusive harness problem
                return Err(crate::engine::inconclusive(format!(
                    "independent verifiers disagree (rust={rv}, python={pv}) for suite {}",
                    C::SID.name()
                )));
            }
        }
    }
    Ok(verdict)
}

pub fn sig_bytes<C: Suite>(sig: &frost::Signature<C>) -> Result<Vec<u8>, Failure> {
    sig.serialize().map_err(|e| Failure { key: "sig-serialize".into(), msg: format!("signature does not serialize: {e:?}") })
}

/// our own Lagrange coefficient at x (None = 0) for `xi` within `xs` — written against the
/// textbook formula, independent of the library routine under test.
pub fn lagrange<C: Suite>(xs: &[Sc<C>], xi: Sc<C>, at: Option<Sc<C>>) -> Sc<C> {
    let x = at.unwrap_or_else(zero::<C>);
    let mut num = one::<C>();
    let mut den = one::<C>();
    for xj in xs {
        if *xj == xi {
            continue;
        }
        num = num * (x - *xj);
        den = den * (xi - *xj);
    }
    num * <F<C> as frost::Field>::invert(&den).expect("distinct identifiers")
}

/// naive polynomial evaluation with explicit powers (the library uses Horner)
pub fn poly_eval<C: Suite>(coeffs: &[Sc<C>], x: Sc<C>) -> Sc<C> {
    let mut acc = zero::<C>();
    let mut pw = one::<C>();
    for c in coeffs {
        acc = acc + *c * pw;
        pw = pw * x;
    }
    acc
}

/// sum_k x^k * C_k with explicit powers
pub fn commit_eval<C: Suite>(comm: &[El<C>], x: Sc<C>) -> El<C> {
    let mut acc = ident::<C>();
    let mut pw = one::<C>();
    for c in comm {
        acc = acc + *c * pw;
        pw = pw * x;
    }
    acc
}

pub fn culprits_of<C: Suite>(e: &frost::Error<C>) -> Vec<Id<C>> {
    e.culprits()
}


/// the same JSON document in another spelling: the first character of every string literal written as a \\uXXXX escape
pub fn json_escape_variant(text: &str) -> String {
    let mut out = String::with_capacity(text.len() + 16);
    let mut in_str = false;
    let mut first = false;
    let mut esc = false;
    for ch in text.chars() {
        if in_str {
            if first {
                first = false;
                if ch.is_ascii_alphanumeric() {
                    out.push_str(&format!("\\u{:04x}", ch as u32));
                    continue;
                }
            }
            if esc {
                esc = false;
            } else if ch == '\\' {
                esc = true;
            } else if ch == '"' {
                in_str = false;
            }
            out.push(ch);
        } else {
            if ch == '"' {
                in_str = true;
                first = true;
            }
            out.push(ch);
        }
    }
    out
}

/// decode a JSON text through every route a caller may use - borrowed text, byte slice, `io::Read`, an already
/// parsed `serde_json::Value`, and the same document with escaped string characters / pretty-printed. All routes
/// must accept and agree; the error names the route.
pub fn json_all_routes<T: serde::de::DeserializeOwned + PartialEq>(text: &str) -> Result<T, String> {
    let base: T = serde_json::from_str(text).map_err(|e| format!("route from_str: {e}"))?;
    let v: T = serde_json::from_slice(text.as_bytes()).map_err(|e| format!("route from_slice: {e}"))?;
    if v != base {
        return Err("route from_slice gives another value".into());
    }
    let v: T = serde_json::from_reader(std::io::Cursor::new(text.as_bytes())).map_err(|e| format!("route from_reader: {e}"))?;
    if v != base {
        return Err("route from_reader gives another value".into());
    }
    let doc: serde_json::Value = serde_json::from_str(text).map_err(|e| format!("route Value: {e}"))?;
    let v: T = serde_json::from_value(doc.clone()).map_err(|e| format!("route from_value: {e}"))?;
    if v != base {
        return Err("route from_value gives another value".into());
    }
    let escaped = json_escape_variant(text);
    let v: T = serde_json::from_str(&escaped).map_err(|e| format!("route from_str on the same document with \\u escapes: {e}"))?;
    if v != base {
        return Err("route escaped-text gives another value".into());
    }
    let pretty = serde_json::to_string_pretty(&doc).map_err(|e| format!("pretty: {e}"))?;
    let v: T = serde_json::from_str(&pretty).map_err(|e| format!("route from_str on the pretty-printed document: {e}"))?;
    if v != base {
        return Err("route pretty-printed gives another value".into());
    }
    Ok(base)
}
