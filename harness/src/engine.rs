//! Runner: stratified proptest generation, sharding over 16 cores, measurement, shrinking,
//! replay files, known-findings, evidence.  See DESIGN.md §2.2.

use crate::pyref::PySlot;
use crate::suites::{SuiteId, ALL_SUITES};
use proptest::strategy::{BoxedStrategy, Strategy};
use proptest::test_runner::{Config, RngSeed, TestCaseError, TestError, TestRunner};
use serde::{de::DeserializeOwned, Deserialize, Serialize};
use serde_json::{json, Value};
use std::cell::RefCell;
use std::collections::{BTreeMap, BTreeSet, HashSet};
use std::panic::{catch_unwind, AssertUnwindSafe};
use std::sync::atomic::{AtomicBool, AtomicUsize, Ordering};
use std::sync::Mutex;
use std::time::Instant;

pub const VERIF_DIR: &str = "/verif";

#[derive(Clone, Copy, PartialEq, Eq, Debug)]
pub enum Tier {
    Quick,
    Thorough,
}
impl Tier {
    pub fn name(self) -> &'static str {
        match self {
            Tier::Quick => "quick",
            Tier::Thorough => "thorough",
        }
    }
    pub fn pick<T>(self, q: T, t: T) -> T {
        match self {
            Tier::Quick => q,
            Tier::Thorough => t,
        }
    }
}

#[derive(Clone, Debug, Serialize, Deserialize)]
pub struct Failure {
    /// stable identifier of the failing relation / call site, e.g. `C10/refresh_share/verifying_share_stale`
    pub key: String,
    pub msg: String,
}
pub type CheckResult = Result<(), Failure>;

pub const INCONCLUSIVE: &str = "INCONCLUSIVE";

pub fn inconclusive(msg: impl Into<String>) -> Failure {
    Failure { key: INCONCLUSIVE.to_string(), msg: msg.into() }
}

// ---------------------------------------------------------------------------------------------
// known findings

#[derive(Default, Clone)]
pub struct Known {
    /// (property, key, description)
    pub entries: Vec<(String, String, String)>,
}
impl Known {
    pub fn load() -> Known {
        let mut k = Known::default();
        let path = format!("{VERIF_DIR}/KNOWN_FINDINGS.txt");
        if let Ok(text) = std::fs::read_to_string(path) {
            for line in text.lines() {
                let line = line.trim();
                if let Some(rest) = line.strip_prefix("known:") {
                    // known: property=Cxx key=<key> <what fails>
                    let mut prop = String::new();
                    let mut key = String::new();
                    let mut what = Vec::new();
                    for tok in rest.split_whitespace() {
                        if let Some(p) = tok.strip_prefix("property=") {
                            prop = p.to_string();
                        } else if let Some(p) = tok.strip_prefix("key=") {
                            key = p.to_string();
                        } else {
                            what.push(tok);
                        }
                    }
                    if !prop.is_empty() && !key.is_empty() {
                        k.entries.push((prop, key, what.join(" ")));
                    }
                }
            }
        }
        k
    }
    pub fn find(&self, prop: &str, key: &str) -> Option<&str> {
        self.entries.iter().find(|(p, k, _)| p == prop && k == key).map(|(_, _, w)| w.as_str())
    }
}

// ---------------------------------------------------------------------------------------------
// per-evaluation context and statistics

pub fn fnv(s: &str) -> u64 {
    let mut h: u64 = 0xcbf2_9ce4_8422_2325;
    for b in s.as_bytes() {
        h ^= *b as u64;
        h = h.wrapping_mul(0x0000_0100_0000_01b3);
    }
    h
}

#[derive(Default, Clone)]
pub struct Stats {
    pub evaluations: u64,
    pub nontrivial: u64,
    pub distinct: HashSet<u64>,
    pub labels: BTreeMap<String, u64>,
    pub known_hits: BTreeMap<String, u64>,
    pub discarded: u64,
    pub info: BTreeMap<String, u64>,
}
impl Stats {
    pub fn merge(&mut self, o: &Stats) {
        self.evaluations += o.evaluations;
        self.nontrivial += o.nontrivial;
        self.distinct.extend(o.distinct.iter().copied());
        for (k, v) in &o.labels {
            *self.labels.entry(k.clone()).or_default() += v;
        }
        for (k, v) in &o.known_hits {
            *self.known_hits.entry(k.clone()).or_default() += v;
        }
        for (k, v) in &o.info {
            *self.info.entry(k.clone()).or_default() += v;
        }
        self.discarded += o.discarded;
    }
}

pub struct Ctx<'a> {
    pub prop: &'static str,
    pub suite: SuiteId,
    pub tier: Tier,
    pub known: &'a Known,
    pub stats: Stats,
    pub py: &'a mut PySlot,
    /// replay mode: known findings are *not* suppressed
    pub strict: bool,
}

impl<'a> Ctx<'a> {
    /// one explored case (or enumerated sub-case). `desc` is the shape descriptor used for
    /// distinct counting; `nontrivial` is the property's stated rule evaluated on it.
    pub fn eval(&mut self, desc: &str, nontrivial: bool) {
        self.stats.evaluations += 1;
        if nontrivial {
            self.stats.nontrivial += 1;
            self.stats.distinct.insert(fnv(&format!("{}|{}", self.suite.name(), desc)));
        }
    }
    pub fn label(&mut self, l: &str) {
        *self.stats.labels.entry(l.to_string()).or_default() += 1;
    }
    pub fn label_n(&mut self, l: &str, n: u64) {
        *self.stats.labels.entry(l.to_string()).or_default() += n;
    }
    /// informational counters that are not part of any claim
    pub fn info(&mut self, l: &str) {
        *self.stats.info.entry(l.to_string()).or_default() += 1;
    }
    pub fn discard(&mut self) {
        self.stats.discarded += 1;
    }
    /// report a violated relation. Returns Ok(()) when the relation is a listed known finding
    /// (it is then counted and the search continues behind it).
    pub fn fail(&mut self, key: &str, msg: String) -> CheckResult {
        if !self.strict && self.known.find(self.prop, key).is_some() {
            *self.stats.known_hits.entry(key.to_string()).or_default() += 1;
            return Ok(());
        }
        Err(Failure { key: key.to_string(), msg })
    }
}

/// `ensure!(ctx, cond, "key", "format", args..)`
#[macro_export]
macro_rules! ensure {
    ($ctx:expr, $cond:expr, $key:expr, $($fmt:tt)+) => {
        if !($cond) {
            $ctx.fail($key, format!($($fmt)+))?;
        }
    };
}

// ---------------------------------------------------------------------------------------------
// the property interface

pub trait Property: Sync + Send + 'static {
    type Case: Serialize + DeserializeOwned + core::fmt::Debug + Clone + Send + 'static;
    fn id(&self) -> &'static str;
    fn level(&self) -> &'static str;
    fn rule(&self) -> String;
    fn assumptions(&self) -> Vec<String>;
    fn suites(&self) -> Vec<SuiteId> {
        ALL_SUITES.to_vec()
    }
    /// list of (stratum, number of cases): the stratum is forced, proptest fills in the rest
    fn plan(&self, suite: SuiteId, tier: Tier) -> Vec<(u32, u32)>;
    fn strategy(&self, suite: SuiteId, tier: Tier, stratum: u32) -> BoxedStrategy<Self::Case>;
    fn check(&self, suite: SuiteId, case: &Self::Case, ctx: &mut Ctx) -> CheckResult;
    /// labels that must reach at least this count, else the run is void (exit 2)
    fn required_labels(&self, _tier: Tier) -> Vec<(String, u64)> {
        vec![]
    }
    fn chunk(&self, _suite: SuiteId) -> u32 {
        16
    }
    fn max_shrink_iters(&self) -> u32 {
        256
    }
    fn exhaustive(&self, _tier: Tier) -> bool {
        false
    }
    /// additional non-proptest stage (corpus replay, fuzz campaign, process restarts ...)
    fn extra(&self, _tier: Tier, _seed: u64, _known: &Known, _out: &mut ExtraOut) {}
}

#[derive(Default)]
pub struct ExtraOut {
    pub stats: Stats,
    pub samples: Vec<Value>,
    pub violations: Vec<Violation>,
    pub inconclusive: Vec<String>,
    pub notes: BTreeMap<String, Value>,
}

#[derive(Clone, Debug)]
pub struct Violation {
    pub suite: String,
    pub failure: Failure,
    pub case: Value,
    pub replay_kind: String,
}

// ---------------------------------------------------------------------------------------------
// panic capture (library panics inside a check become failures with the panic location as key)

thread_local! {
    static LAST_PANIC: RefCell<Option<(String, String)>> = const { RefCell::new(None) };
}

pub fn install_panic_hook() {
    std::panic::set_hook(Box::new(|info| {
        let loc = info
            .location()
            .map(|l| {
                let f = l.file();
                let f = f.rsplit("/repo/").next().unwrap_or(f);
                format!("{}:{}", f, l.line())
            })
            .unwrap_or_else(|| "?".into());
        let msg = if let Some(s) = info.payload().downcast_ref::<&str>() {
            s.to_string()
        } else if let Some(s) = info.payload().downcast_ref::<String>() {
            s.clone()
        } else {
            "<non-string panic>".to_string()
        };
        LAST_PANIC.with(|p| *p.borrow_mut() = Some((loc, msg)));
    }));
}

pub fn take_panic() -> (String, String) {
    LAST_PANIC.with(|p| p.borrow_mut().take()).unwrap_or(("?".into(), "?".into()))
}

/// run `f`, turning a panic into a Failure keyed by the panic location
pub fn guarded<T>(key_prefix: &str, f: impl FnOnce() -> Result<T, Failure>) -> Result<T, Failure> {
    match catch_unwind(AssertUnwindSafe(f)) {
        Ok(r) => r,
        Err(_) => {
            let (loc, msg) = take_panic();
            if msg.contains(crate::tape::TAPE_RUNAWAY) {
                return Err(inconclusive("tape runaway (rejection sampler did not terminate)"));
            }
            Err(Failure { key: format!("{key_prefix}/panic@{loc}"), msg: format!("panic at {loc}: {msg}") })
        }
    }
}

// ---------------------------------------------------------------------------------------------
// runner

struct Unit {
    suite: SuiteId,
    stratum: u32,
    cases: u32,
    index: usize,
}

#[derive(Default)]
struct UnitOut {
    stats: Stats,
    sample: Option<Value>,
    violation: Option<Violation>,
    inconclusive: Option<String>,
}

pub fn seed_for(seed: u64, prop: &str, suite: SuiteId, stratum: u32, chunk: usize) -> u64 {
    fnv(&format!("{seed}/{prop}/{}/{stratum}/{chunk}", suite.name()))
}

fn run_unit<P: Property>(
    p: &P,
    u: &Unit,
    tier: Tier,
    seed: u64,
    known: &Known,
    stop: &AtomicBool,
    py: &mut PySlot,
) -> UnitOut {
    let mut out = UnitOut::default();
    let cfg = Config {
        cases: u.cases,
        max_shrink_iters: p.max_shrink_iters(),
        // minimisation is best effort: the verdict is fixed by the first failing case
        max_shrink_time: 120_000,
        failure_persistence: None,
        rng_seed: RngSeed::Fixed(seed_for(seed, p.id(), u.suite, u.stratum, u.index)),
        max_global_rejects: 65536,
        ..Config::default()
    };
    let mut runner = TestRunner::new(cfg);
    let strategy = p.strategy(u.suite, tier, u.stratum);
    let failed = RefCell::new(false);
    let stats = RefCell::new(Stats::default());
    let sample = RefCell::new(None::<Value>);
    let incon = RefCell::new(None::<String>);
    let py = RefCell::new(py);
    let result = runner.run(&strategy, |case| {
        if stop.load(Ordering::Relaxed) && !*failed.borrow() {
            return Ok(());
        }
        if incon.borrow().is_some() {
            return Ok(());
        }
        let mut pyb = py.borrow_mut();
        let mut ctx = Ctx {
            prop: p.id(),
            suite: u.suite,
            tier,
            known,
            stats: Stats::default(),
            py: &mut **pyb,
            strict: false,
        };
        let r = guarded(p.id(), || p.check(u.suite, &case, &mut ctx));
        match r {
            Ok(()) => {
                if !*failed.borrow() {
                    if sample.borrow().is_none() {
                        let labels: Vec<String> = ctx.stats.labels.keys().cloned().collect();
                        *sample.borrow_mut() = Some(json!({
                            "suite": u.suite.name(), "stratum": u.stratum,
                            "case": serde_json::to_value(&case).unwrap_or(Value::Null),
                            "labels": labels,
                            "sub_evaluations": ctx.stats.evaluations,
                        }));
                    }
                    stats.borrow_mut().merge(&ctx.stats);
                }
                Ok(())
            }
            Err(f) if f.key == INCONCLUSIVE => {
                *incon.borrow_mut() = Some(f.msg);
                stop.store(true, Ordering::Relaxed);
                Ok(())
            }
            Err(f) => {
                *failed.borrow_mut() = true;
                stop.store(true, Ordering::Relaxed);
                Err(TestCaseError::fail(f.key))
            }
        }
    });
    out.stats = stats.into_inner();
    out.sample = sample.into_inner();
    out.inconclusive = incon.into_inner();
    if let Err(e) = result {
        match e {
            TestError::Fail(_, case) => {
                // re-run the minimal case to obtain the precise failure
                let mut pyb = py.borrow_mut();
                let mut ctx = Ctx {
                    prop: p.id(),
                    suite: u.suite,
                    tier,
                    known,
                    stats: Stats::default(),
                    py: &mut **pyb,
                    strict: false,
                };
                let f = match guarded(p.id(), || p.check(u.suite, &case, &mut ctx)) {
                    Err(f) => f,
                    Ok(()) => Failure {
                        key: format!("{}/nondeterministic", p.id()),
                        msg: "shrunk case passed on re-execution".into(),
                    },
                };
                if f.key == INCONCLUSIVE {
                    out.inconclusive = Some(f.msg);
                } else {
                    out.violation = Some(Violation {
                        suite: u.suite.name().to_string(),
                        failure: f,
                        case: serde_json::to_value(&case).unwrap_or(Value::Null),
                        replay_kind: "case".into(),
                    });
                }
            }
            TestError::Abort(r) => {
                out.inconclusive = Some(format!("proptest aborted: {r}"));
            }
        }
    }
    out
}

pub struct Report {
    pub stats: Stats,
    pub per_suite: BTreeMap<String, u64>,
    pub samples: Vec<Value>,
    pub violations: Vec<Violation>,
    pub inconclusive: Vec<String>,
    pub notes: BTreeMap<String, Value>,
    pub wall_s: f64,
}

pub fn threads() -> usize {
    std::env::var("VERIF_THREADS")
        .ok()
        .and_then(|s| s.parse().ok())
        .unwrap_or_else(|| std::thread::available_parallelism().map(|n| n.get()).unwrap_or(8))
        .max(1)
}

pub fn run_property<P: Property>(p: &P, tier: Tier, seed: u64, only_suite: Option<SuiteId>) -> Report {
    let t0 = Instant::now();
    let known = Known::load();
    let mut units = Vec::new();
    // interleave suites so that slow suites spread over the worker pool
    let mut per_suite_units: Vec<Vec<(SuiteId, u32, u32)>> = Vec::new();
    for s in p.suites() {
        if let Some(o) = only_suite {
            if o != s {
                continue;
            }
        }
        let mut v = Vec::new();
        for (stratum, cases) in p.plan(s, tier) {
            let chunk = p.chunk(s).max(1);
            let mut left = cases;
            while left > 0 {
                let c = left.min(chunk);
                v.push((s, stratum, c));
                left -= c;
            }
        }
        per_suite_units.push(v);
    }
    // slow suites first (longest processing time first), then round robin
    per_suite_units.sort_by_key(|v| v.first().map(|x| !x.0.slow()).unwrap_or(true));
    let maxlen = per_suite_units.iter().map(|v| v.len()).max().unwrap_or(0);
    for i in 0..maxlen {
        for v in &per_suite_units {
            if let Some((s, st, c)) = v.get(i) {
                let index = units.len();
                units.push(Unit { suite: *s, stratum: *st, cases: *c, index });
            }
        }
    }
    let next = AtomicUsize::new(0);
    let stop = AtomicBool::new(false);
    let outs: Mutex<Vec<(usize, SuiteId, UnitOut)>> = Mutex::new(Vec::new());
    let nthreads = threads().min(units.len().max(1));
    std::thread::scope(|sc| {
        for _ in 0..nthreads {
            sc.spawn(|| {
                let mut py = PySlot::default();
                loop {
                    let i = next.fetch_add(1, Ordering::Relaxed);
                    if i >= units.len() {
                        break;
                    }
                    if stop.load(Ordering::Relaxed) {
                        break;
                    }
                    let u = &units[i];
                    let o = run_unit(p, u, tier, seed, &known, &stop, &mut py);
                    outs.lock().unwrap().push((i, u.suite, o));
                }
                py.shutdown();
            });
        }
    });
    let mut outs = outs.into_inner().unwrap();
    outs.sort_by_key(|(i, _, _)| *i);
    let mut rep = Report {
        stats: Stats::default(),
        per_suite: BTreeMap::new(),
        samples: Vec::new(),
        violations: Vec::new(),
        inconclusive: Vec::new(),
        notes: BTreeMap::new(),
        wall_s: 0.0,
    };
    let mut sample_keys: BTreeSet<(String, u32)> = BTreeSet::new();
    for (i, suite, o) in outs {
        rep.stats.merge(&o.stats);
        *rep.per_suite.entry(suite.name().to_string()).or_default() += o.stats.evaluations;
        if let Some(s) = o.sample {
            let key = (suite.name().to_string(), units[i].stratum);
            if rep.samples.len() < 8 && sample_keys.insert(key) {
                rep.samples.push(s);
            }
        }
        if let Some(v) = o.violation {
            rep.violations.push(v);
        }
        if let Some(m) = o.inconclusive {
            rep.inconclusive.push(m);
        }
    }
    // replay tier: committed regression cases (/verif/regress/<prop>/*.json) bypass proptest
    if only_suite.is_none() {
        let dir = format!("{VERIF_DIR}/regress/{}", p.id());
        let mut files: Vec<_> = std::fs::read_dir(&dir).map(|d| d.filter_map(|e| e.ok()).map(|e| e.path()).collect()).unwrap_or_default();
        files.sort();
        let mut py = PySlot::default();
        for f in files {
            if f.extension().and_then(|e| e.to_str()) != Some("json") {
                continue;
            }
            let body: Value = match std::fs::read_to_string(&f).ok().and_then(|t| serde_json::from_str(&t).ok()) {
                Some(b) => b,
                None => continue,
            };
            if body["kind"].as_str().unwrap_or("case") != "case" {
                continue;
            }
            let suite = match body["suite"].as_str().and_then(SuiteId::from_name) {
                Some(s) => s,
                None => continue,
            };
            let case: P::Case = match serde_json::from_value(body["case"].clone()) {
                Ok(c) => c,
                Err(_) => {
                    rep.inconclusive.push(format!("regression case {} no longer decodes", f.display()));
                    continue;
                }
            };
            let mut ctx = Ctx { prop: p.id(), suite, tier, known: &known, stats: Stats::default(), py: &mut py, strict: false };
            let r = guarded(p.id(), || p.check(suite, &case, &mut ctx));
            ctx.stats.labels.insert("regression-replay".into(), 1);
            let st = ctx.stats.clone();
            match r {
                Ok(()) => {
                    *rep.per_suite.entry("regression-replay".into()).or_default() += st.evaluations;
                    rep.stats.merge(&st);
                }
                Err(fl) if fl.key == INCONCLUSIVE => rep.inconclusive.push(fl.msg),
                Err(fl) => rep.violations.push(Violation { suite: suite.name().to_string(), failure: fl, case: body["case"].clone(), replay_kind: "case".into() }),
            }
        }
        py.shutdown();
    }
    // extra stage
    if rep.violations.is_empty() && only_suite.is_none() {
        let mut ex = ExtraOut::default();
        p.extra(tier, seed, &known, &mut ex);
        rep.stats.merge(&ex.stats);
        if ex.stats.evaluations > 0 {
            *rep.per_suite.entry("extra-stage".into()).or_default() += ex.stats.evaluations;
        }
        rep.samples.extend(ex.samples.into_iter().take(4));
        rep.violations.extend(ex.violations);
        rep.inconclusive.extend(ex.inconclusive);
        rep.notes.extend(ex.notes);
    }
    // required labels
    if rep.violations.is_empty() && only_suite.is_none() {
        for (l, min) in p.required_labels(tier) {
            let got = rep.stats.labels.get(&l).copied().unwrap_or(0);
            if got < min {
                rep.inconclusive.push(format!("required label '{l}' reached {got} < {min}: generator is broken"));
            }
        }
    }
    rep.wall_s = t0.elapsed().as_secs_f64();
    rep
}

pub fn write_replay(prop: &str, v: &Violation) -> String {
    let dir = format!("{VERIF_DIR}/replays/{prop}");
    let _ = std::fs::create_dir_all(&dir);
    let body = json!({
        "property": prop,
        "suite": v.suite,
        "kind": v.replay_kind,
        "key": v.failure.key,
        "message": v.failure.msg,
        "case": v.case,
    });
    let text = serde_json::to_string_pretty(&body).unwrap();
    let path = format!("{dir}/{}-{:016x}.json", v.suite, fnv(&text));
    let _ = std::fs::write(&path, text);
    path
}

pub fn write_evidence<P: Property>(p: &P, tier: Tier, seed: u64, rep: &Report, nviol: usize) {
    let mut coverage = serde_json::Map::new();
    coverage.insert("evaluations".into(), json!(rep.stats.evaluations));
    coverage.insert("distinct_nontrivial".into(), json!(rep.stats.distinct.len() as u64));
    coverage.insert("nontrivial_evaluations".into(), json!(rep.stats.nontrivial));
    coverage.insert("rule".into(), json!(p.rule()));
    coverage.insert("samples".into(), json!(rep.samples));
    coverage.insert("labels".into(), json!(rep.stats.labels));
    coverage.insert("per_suite_evaluations".into(), json!(rep.per_suite));
    coverage.insert("excluded_known".into(), json!(rep.stats.known_hits));
    coverage.insert("discarded_negligible_events".into(), json!(rep.stats.discarded));
    coverage.insert("informational".into(), json!(rep.stats.info));
    if p.exhaustive(tier) {
        coverage.insert("exhaustive".into(), json!(true));
    }
    for (k, v) in &rep.notes {
        coverage.insert(k.clone(), v.clone());
    }
    if !rep.inconclusive.is_empty() {
        coverage.insert("inconclusive".into(), json!(rep.inconclusive));
    }
    let ev = json!({
        "property_id": p.id(),
        "tier": tier.name(),
        "seed": seed,
        "level": p.level(),
        "coverage": Value::Object(coverage),
        "assumptions": p.assumptions(),
        "wall_s": (rep.wall_s * 1000.0).round() / 1000.0,
        "violations": nviol,
    });
    let dir = format!("{VERIF_DIR}/evidence");
    let _ = std::fs::create_dir_all(&dir);
    let _ = std::fs::write(format!("{dir}/{}.json", p.id()), serde_json::to_string_pretty(&ev).unwrap() + "\n");
}

/// run + report. Returns the process exit code.
pub fn main_run<P: Property>(p: &P, tier: Tier, seed: u64, only_suite: Option<SuiteId>) -> i32 {
    let rep = run_property(p, tier, seed, only_suite);
    let known = Known::load();
    // known-finding lines (one per listed finding that was hit)
    for (key, n) in &rep.stats.known_hits {
        let what = known.find(p.id(), key).unwrap_or("");
        println!("KNOWN-FINDING: property={} {} [key={} hits={}]", p.id(), what, key, n);
    }
    let mut seen = BTreeSet::new();
    let mut nviol = 0;
    for v in &rep.violations {
        if !seen.insert((v.suite.clone(), v.failure.key.clone())) {
            continue;
        }
        let path = write_replay(p.id(), v);
        nviol += 1;
        println!("VIOLATION property={} replay={}", p.id(), path);
        println!("  suite={} key={} : {}", v.suite, v.failure.key, v.failure.msg);
    }
    if only_suite.is_none() {
        write_evidence(p, tier, seed, &rep, nviol);
    }
    println!(
        "{} {} seed={} evaluations={} distinct_nontrivial={} known_excluded={} wall={:.1}s",
        p.id(),
        tier.name(),
        seed,
        rep.stats.evaluations,
        rep.stats.distinct.len(),
        rep.stats.known_hits.values().sum::<u64>(),
        rep.wall_s
    );
    if nviol > 0 {
        return 1;
    }
    if !rep.inconclusive.is_empty() {
        for m in &rep.inconclusive {
            println!("INCONCLUSIVE property={} {}", p.id(), m);
        }
        return 2;
    }
    0
}

/// replay a saved case through the property's check function (strict: nothing is suppressed)
pub fn main_replay<P: Property>(p: &P, body: &Value, path: &str) -> i32 {
    let suite = body["suite"].as_str().and_then(SuiteId::from_name);
    let suite = match suite {
        Some(s) => s,
        None => {
            println!("replay: unknown suite");
            return 2;
        }
    };
    let case: P::Case = match serde_json::from_value(body["case"].clone()) {
        Ok(c) => c,
        Err(e) => {
            println!("replay: cannot decode case: {e}");
            return 2;
        }
    };
    let known = Known::load();
    let mut py = PySlot::default();
    let mut ctx = Ctx {
        prop: p.id(),
        suite,
        tier: Tier::Quick,
        known: &known,
        stats: Stats::default(),
        py: &mut py,
        strict: true,
    };
    let r = guarded(p.id(), || p.check(suite, &case, &mut ctx));
    let evals = ctx.stats.evaluations;
    py.shutdown();
    match r {
        Ok(()) => {
            println!("replay: property {} holds on this case ({} evaluations)", p.id(), evals);
            0
        }
        Err(f) if f.key == INCONCLUSIVE => {
            println!("INCONCLUSIVE property={} {}", p.id(), f.msg);
            2
        }
        Err(f) => {
            println!("VIOLATION property={} replay={}", p.id(), path);
            println!("  suite={} key={} : {}", suite.name(), f.key, f.msg);
            1
        }
    }
}

// ---------------------------------------------------------------------------------------------
// small strategy helpers shared by the properties

/// map a u16 "index" monotonically onto 0..len (shrinks towards 0)
pub fn idx(i: u16, len: usize) -> usize {
    if len == 0 { 0 } else { ((i as usize) * len) >> 16 }
}

pub fn boxed<S: Strategy + 'static>(s: S) -> BoxedStrategy<S::Value> {
    s.boxed()
}
