//! Global allocator wrapper used by C20: while a thread has capturing switched on, the content of
//! every heap block is copied *just before it is returned to the allocator*. This is how "dropping the
//! value leaves no copy of its secret scalars in the storage it occupied" is observed for heap storage.

use std::alloc::{GlobalAlloc, Layout, System};
use std::cell::{Cell, RefCell};

pub struct Spy;

thread_local! {
    static ACTIVE: Cell<bool> = const { Cell::new(false) };
    static FREED: RefCell<Vec<Vec<u8>>> = const { RefCell::new(Vec::new()) };
    /// addresses of the blocks in FREED (same order) and (address, size) of every block allocated while capturing
    static FREED_AT: RefCell<Vec<usize>> = const { RefCell::new(Vec::new()) };
    static ALLOCS: RefCell<Vec<(usize, usize)>> = const { RefCell::new(Vec::new()) };
}

unsafe impl GlobalAlloc for Spy {
    unsafe fn alloc(&self, layout: Layout) -> *mut u8 {
        let p = unsafe { System.alloc(layout) };
        let active = ACTIVE.try_with(|a| a.get()).unwrap_or(false);
        if active {
            let _ = ACTIVE.try_with(|a| a.set(false));
            let _ = ALLOCS.try_with(|f| f.borrow_mut().push((p as usize, layout.size())));
            let _ = ACTIVE.try_with(|a| a.set(true));
        }
        p
    }
    unsafe fn dealloc(&self, ptr: *mut u8, layout: Layout) {
        let active = ACTIVE.try_with(|a| a.get()).unwrap_or(false);
        if active {
            // no recursion while we allocate the copy
            let _ = ACTIVE.try_with(|a| a.set(false));
            let copy = unsafe { std::slice::from_raw_parts(ptr, layout.size()) }.to_vec();
            let _ = FREED.try_with(|f| f.borrow_mut().push(copy));
            let _ = FREED_AT.try_with(|f| f.borrow_mut().push(ptr as usize));
            let _ = ACTIVE.try_with(|a| a.set(true));
        }
        unsafe { System.dealloc(ptr, layout) }
    }
    // realloc: the default implementation (alloc + copy + dealloc) is used on purpose, so that a block
    // that moves is seen by `dealloc` above.
}

/// run `f` with capturing on; returns the blocks freed meanwhile
pub fn capture<R>(f: impl FnOnce() -> R) -> (R, Vec<Vec<u8>>) {
    FREED.with(|fr| fr.borrow_mut().clear());
    FREED_AT.with(|fr| fr.borrow_mut().clear());
    ALLOCS.with(|fr| fr.borrow_mut().clear());
    ACTIVE.with(|a| a.set(true));
    let r = f();
    ACTIVE.with(|a| a.set(false));
    let blocks = FREED.with(|fr| std::mem::take(&mut *fr.borrow_mut()));
    (r, blocks)
}


/// like `capture`, with addresses: returns (result, blocks allocated meanwhile as (address, size), blocks freed
/// meanwhile as (address, content just before release))
pub fn capture_full<R>(f: impl FnOnce() -> R) -> (R, Vec<(usize, usize)>, Vec<(usize, Vec<u8>)>) {
    let (r, blocks) = capture(f);
    let at = FREED_AT.with(|fr| std::mem::take(&mut *fr.borrow_mut()));
    let allocs = ALLOCS.with(|fr| std::mem::take(&mut *fr.borrow_mut()));
    (r, allocs, at.into_iter().zip(blocks).collect())
}
