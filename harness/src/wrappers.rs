//! The per-ciphersuite crates (frost-ed25519, ..., frost-secp256k1-tr) export thin forwarding functions
//! (`keys::generate_with_dealer`, `keys::dkg::part1`, `round1::commit`, `round2::sign`, `aggregate`, ...). They
//! are the API users actually call, while the property checks call the generic `frost_core` functions. This
//! module makes the forwarding layer visible: `Wrap` gives generic access to each suite crate's own functions
//! and `differential` runs a protocol step through both layers on identical inputs and identical random
//! streams and requires identical outputs.

use crate::common::*;
use crate::engine::*;
use crate::suites::*;
use crate::tape::{Sm, Tape};
use frost_core as frost;
use frost_core::keys::dkg::{round1 as d1, round2 as d2};
use frost_core::keys::repairable::{Delta, Sigma};
use frost_core::keys::{IdentifierList, KeyPackage, PublicKeyPackage, SecretShare, SigningShare};
use frost_core::round1::{SigningCommitments, SigningNonces};
use frost_core::round2::SignatureShare;
use frost_core::{CheaterDetection, Ciphersuite, Error, Signature, SigningKey, SigningPackage};
use std::collections::BTreeMap;

type Idm<C, T> = BTreeMap<frost::Identifier<C>, T>;

#[allow(clippy::type_complexity)]
pub trait Wrap: Ciphersuite + Sized {
    fn w_generate_with_dealer(n: u16, t: u16, ids: IdentifierList<Self>, tape: &mut Tape) -> Result<(Idm<Self, SecretShare<Self>>, PublicKeyPackage<Self>), Error<Self>>;
    fn w_split(sk: &SigningKey<Self>, n: u16, t: u16, ids: IdentifierList<Self>, tape: &mut Tape) -> Result<(Idm<Self, SecretShare<Self>>, PublicKeyPackage<Self>), Error<Self>>;
    fn w_reconstruct(kps: &[KeyPackage<Self>]) -> Result<SigningKey<Self>, Error<Self>>;
    fn w_commit(share: &SigningShare<Self>, tape: &mut Tape) -> (SigningNonces<Self>, SigningCommitments<Self>);
    fn w_sign(p: &SigningPackage<Self>, n: &SigningNonces<Self>, kp: &KeyPackage<Self>) -> Result<SignatureShare<Self>, Error<Self>>;
    fn w_aggregate(p: &SigningPackage<Self>, s: &Idm<Self, SignatureShare<Self>>, pk: &PublicKeyPackage<Self>) -> Result<Signature<Self>, Error<Self>>;
    fn w_aggregate_custom(p: &SigningPackage<Self>, s: &Idm<Self, SignatureShare<Self>>, pk: &PublicKeyPackage<Self>, m: CheaterDetection) -> Result<Signature<Self>, Error<Self>>;
    fn w_dkg_part1(id: frost::Identifier<Self>, n: u16, t: u16, tape: &mut Tape) -> Result<(d1::SecretPackage<Self>, d1::Package<Self>), Error<Self>>;
    fn w_dkg_part2(sec: d1::SecretPackage<Self>, r1: &Idm<Self, d1::Package<Self>>) -> Result<(d2::SecretPackage<Self>, Idm<Self, d2::Package<Self>>), Error<Self>>;
    fn w_dkg_part3(sec: &d2::SecretPackage<Self>, r1: &Idm<Self, d1::Package<Self>>, r2: &Idm<Self, d2::Package<Self>>) -> Result<(KeyPackage<Self>, PublicKeyPackage<Self>), Error<Self>>;
    fn w_compute_refreshing_shares(pk: PublicKeyPackage<Self>, ids: &[frost::Identifier<Self>], tape: &mut Tape) -> Result<(Vec<SecretShare<Self>>, PublicKeyPackage<Self>), Error<Self>>;
    fn w_refresh_share(share: SecretShare<Self>, kp: &KeyPackage<Self>) -> Result<KeyPackage<Self>, Error<Self>>;
    fn w_refresh_dkg_part1(id: frost::Identifier<Self>, n: u16, t: u16, tape: &mut Tape) -> Result<(d1::SecretPackage<Self>, d1::Package<Self>), Error<Self>>;
    fn w_refresh_dkg_part2(sec: d1::SecretPackage<Self>, r1: &Idm<Self, d1::Package<Self>>) -> Result<(d2::SecretPackage<Self>, Idm<Self, d2::Package<Self>>), Error<Self>>;
    fn w_refresh_dkg_shares(sec: &d2::SecretPackage<Self>, r1: &Idm<Self, d1::Package<Self>>, r2: &Idm<Self, d2::Package<Self>>, pk: PublicKeyPackage<Self>, kp: KeyPackage<Self>) -> Result<(KeyPackage<Self>, PublicKeyPackage<Self>), Error<Self>>;
    fn w_repair_part1(helpers: &[frost::Identifier<Self>], kp: &KeyPackage<Self>, tape: &mut Tape, target: frost::Identifier<Self>) -> Result<Idm<Self, Delta<Self>>, Error<Self>>;
    fn w_repair_part2(deltas: &[Delta<Self>]) -> Sigma<Self>;
    fn w_repair_part3(sigmas: &[Sigma<Self>], id: frost::Identifier<Self>, pk: &PublicKeyPackage<Self>) -> Result<KeyPackage<Self>, Error<Self>>;
}

macro_rules! wrap {
    ($m:ident, $T:ty) => {
        wrap!($m, $T, $m::aggregate_custom);
    };
    ($m:ident, $T:ty, $aggc:path) => {
        impl Wrap for $T {
            fn w_generate_with_dealer(n: u16, t: u16, ids: IdentifierList<Self>, tape: &mut Tape) -> Result<(Idm<Self, SecretShare<Self>>, PublicKeyPackage<Self>), Error<Self>> {
                $m::keys::generate_with_dealer(n, t, ids, tape)
            }
            fn w_split(sk: &SigningKey<Self>, n: u16, t: u16, ids: IdentifierList<Self>, tape: &mut Tape) -> Result<(Idm<Self, SecretShare<Self>>, PublicKeyPackage<Self>), Error<Self>> {
                $m::keys::split(sk, n, t, ids, tape)
            }
            fn w_reconstruct(kps: &[KeyPackage<Self>]) -> Result<SigningKey<Self>, Error<Self>> {
                $m::keys::reconstruct(kps)
            }
            fn w_commit(share: &SigningShare<Self>, tape: &mut Tape) -> (SigningNonces<Self>, SigningCommitments<Self>) {
                $m::round1::commit(share, tape)
            }
            fn w_sign(p: &SigningPackage<Self>, n: &SigningNonces<Self>, kp: &KeyPackage<Self>) -> Result<SignatureShare<Self>, Error<Self>> {
                $m::round2::sign(p, n, kp)
            }
            fn w_aggregate(p: &SigningPackage<Self>, s: &Idm<Self, SignatureShare<Self>>, pk: &PublicKeyPackage<Self>) -> Result<Signature<Self>, Error<Self>> {
                $m::aggregate(p, s, pk)
            }
            fn w_aggregate_custom(p: &SigningPackage<Self>, s: &Idm<Self, SignatureShare<Self>>, pk: &PublicKeyPackage<Self>, m: CheaterDetection) -> Result<Signature<Self>, Error<Self>> {
                $aggc(p, s, pk, m)
            }
            fn w_dkg_part1(id: frost::Identifier<Self>, n: u16, t: u16, tape: &mut Tape) -> Result<(d1::SecretPackage<Self>, d1::Package<Self>), Error<Self>> {
                $m::keys::dkg::part1(id, n, t, tape)
            }
            fn w_dkg_part2(sec: d1::SecretPackage<Self>, r1: &Idm<Self, d1::Package<Self>>) -> Result<(d2::SecretPackage<Self>, Idm<Self, d2::Package<Self>>), Error<Self>> {
                $m::keys::dkg::part2(sec, r1)
            }
            fn w_dkg_part3(sec: &d2::SecretPackage<Self>, r1: &Idm<Self, d1::Package<Self>>, r2: &Idm<Self, d2::Package<Self>>) -> Result<(KeyPackage<Self>, PublicKeyPackage<Self>), Error<Self>> {
                $m::keys::dkg::part3(sec, r1, r2)
            }
            fn w_compute_refreshing_shares(pk: PublicKeyPackage<Self>, ids: &[frost::Identifier<Self>], tape: &mut Tape) -> Result<(Vec<SecretShare<Self>>, PublicKeyPackage<Self>), Error<Self>> {
                $m::keys::refresh::compute_refreshing_shares(pk, ids, tape)
            }
            fn w_refresh_share(share: SecretShare<Self>, kp: &KeyPackage<Self>) -> Result<KeyPackage<Self>, Error<Self>> {
                $m::keys::refresh::refresh_share(share, kp)
            }
            fn w_refresh_dkg_part1(id: frost::Identifier<Self>, n: u16, t: u16, tape: &mut Tape) -> Result<(d1::SecretPackage<Self>, d1::Package<Self>), Error<Self>> {
                $m::keys::refresh::refresh_dkg_part1(id, n, t, tape)
            }
            fn w_refresh_dkg_part2(sec: d1::SecretPackage<Self>, r1: &Idm<Self, d1::Package<Self>>) -> Result<(d2::SecretPackage<Self>, Idm<Self, d2::Package<Self>>), Error<Self>> {
                $m::keys::refresh::refresh_dkg_part2(sec, r1)
            }
            fn w_refresh_dkg_shares(sec: &d2::SecretPackage<Self>, r1: &Idm<Self, d1::Package<Self>>, r2: &Idm<Self, d2::Package<Self>>, pk: PublicKeyPackage<Self>, kp: KeyPackage<Self>) -> Result<(KeyPackage<Self>, PublicKeyPackage<Self>), Error<Self>> {
                $m::keys::refresh::refresh_dkg_shares(sec, r1, r2, pk, kp)
            }
            fn w_repair_part1(helpers: &[frost::Identifier<Self>], kp: &KeyPackage<Self>, tape: &mut Tape, target: frost::Identifier<Self>) -> Result<Idm<Self, Delta<Self>>, Error<Self>> {
                $m::keys::repairable::repair_share_part1::<Self, _>(helpers, kp, tape, target)
            }
            fn w_repair_part2(deltas: &[Delta<Self>]) -> Sigma<Self> {
                $m::keys::repairable::repair_share_part2(deltas)
            }
            fn w_repair_part3(sigmas: &[Sigma<Self>], id: frost::Identifier<Self>, pk: &PublicKeyPackage<Self>) -> Result<KeyPackage<Self>, Error<Self>> {
                $m::keys::repairable::repair_share_part3(sigmas, id, pk)
            }
        }
    };
}

wrap!(frost_ed25519, frost_ed25519::Ed25519Sha512);
wrap!(frost_ed448, frost_ed448::Ed448Shake256);
wrap!(frost_p256, frost_p256::P256Sha256);
wrap!(frost_ristretto255, frost_ristretto255::Ristretto255Sha512);
wrap!(frost_secp256k1, frost_secp256k1::Secp256K1Sha256);
// the Taproot crate exports no `aggregate_custom`: the generic function stands in (the comparison is then trivially equal)
wrap!(frost_secp256k1_tr, frost_secp256k1_tr::Secp256K1Sha256TR, frost::aggregate_custom);

fn same<T: PartialEq, E: std::fmt::Debug>(prop: &str, name: &str, a: &Result<T, E>, b: &Result<T, E>) -> Result<(), Failure> {
    let ok = match (a, b) {
        (Ok(x), Ok(y)) => x == y,
        (Err(x), Err(y)) => format!("{x:?}") == format!("{y:?}"),
        _ => false,
    };
    if ok {
        Ok(())
    } else {
        Err(Failure {
            key: format!("{prop}/suite-crate-function-differs/{name}"),
            msg: format!(
                "the ciphersuite crate's `{name}` and the generic frost_core function give different results on identical inputs and identical random streams (suite crate: {}, generic: {})",
                match a {
                    Ok(_) => "Ok".to_string(),
                    Err(e) => format!("Err({e:?})"),
                },
                match b {
                    Ok(_) => "Ok".to_string(),
                    Err(e) => format!("Err({e:?})"),
                }
            ),
        })
    }
}

/// which protocol step goes through both layers
#[derive(Clone, Copy, PartialEq, Eq, Debug)]
pub enum Part {
    Dealer,
    Sign,
    Dkg,
    Refresh,
    Repair,
}

/// run one protocol step through the suite crate's functions and through the generic ones; identical inputs,
/// identical random streams, identical outputs required. `prop` is the property on whose behalf this runs.
pub fn differential<C: Suite>(ctx: &mut Ctx, prop: &str, part: Part, seed: u64) -> CheckResult {
    let mut rng = Sm(seed ^ 0x77a9);
    let n = 2 + rng.below(3) as u16;
    let t = 2 + rng.below(n as u64 - 1) as u16;
    let shape = Shape { n, t };
    ctx.label(&format!("suite-crate-functions:{part:?}"));
    let r = inner::<C>(prop, part, shape, &mut rng);
    match r {
        Ok(()) => Ok(()),
        Err(f) if f.key == INCONCLUSIVE => Err(f),
        Err(f) => ctx.fail(&f.key.clone(), f.msg),
    }
}

fn inner<C: Suite>(prop: &str, part: Part, shape: Shape, rng: &mut Sm) -> Result<(), Failure> {
    let (n, t) = (shape.n, shape.t);
    let style = ID_STYLES[rng.below(6) as usize];
    let idv = make_ids::<C>(IdSpec { style, seed: rng.next() }, n as usize);
    let inc = |e: Error<C>| inconclusive(format!("wrappers: {e:?}"));
    match part {
        Part::Dealer => {
            let s1 = rng.next();
            for custom in [false, true] {
                let list = || if custom { IdentifierList::Custom(&idv) } else { IdentifierList::Default };
                let a = C::w_generate_with_dealer(n, t, list(), &mut Tape::random(s1));
                let b = frost::keys::generate_with_dealer::<C, _>(n, t, list(), &mut Tape::random(s1));
                same(prop, "keys::generate_with_dealer", &a, &b)?;
                let sk = SigningKey::<C>::new(&mut Tape::random(rng.next()));
                let s2 = rng.next();
                let a = C::w_split(&sk, n, t, list(), &mut Tape::random(s2));
                let b = frost::keys::split(&sk, n, t, list(), &mut Tape::random(s2));
                same(prop, "keys::split", &a, &b)?;
                // invalid identifier lists are refused alike: a duplicate, one identifier too many
                if custom {
                    let mut dup = idv.clone();
                    dup[0] = dup[dup.len() - 1];
                    let a = C::w_generate_with_dealer(n, t, IdentifierList::Custom(&dup), &mut Tape::random(s1));
                    let b = frost::keys::generate_with_dealer::<C, _>(n, t, IdentifierList::Custom(&dup), &mut Tape::random(s1));
                    same(prop, "keys::generate_with_dealer", &a, &b)?;
                    let mut more = idv.clone();
                    more.push(fresh_id::<C>(&idv, IdSpec { style, seed: s1 }));
                    let a = C::w_split(&sk, n, t, IdentifierList::Custom(&more), &mut Tape::random(s2));
                    let b = frost::keys::split(&sk, n, t, IdentifierList::Custom(&more), &mut Tape::random(s2));
                    same(prop, "keys::split", &a, &b)?;
                }
                // swapped parameters must be refused alike (n < t)
                if n > t {
                    let a = C::w_generate_with_dealer(t, n, IdentifierList::Default, &mut Tape::random(s1));
                    let b = frost::keys::generate_with_dealer::<C, _>(t, n, IdentifierList::Default, &mut Tape::random(s1));
                    same(prop, "keys::generate_with_dealer", &a, &b)?;
                }
                if let Ok((shares, _)) = b {
                    let kps: Vec<KeyPackage<C>> = shares.values().take(t as usize).filter_map(|s| KeyPackage::try_from(s.clone()).ok()).collect();
                    let a = C::w_reconstruct(&kps).map(|k| k.serialize());
                    let b = frost::keys::reconstruct(&kps).map(|k| k.serialize());
                    same(prop, "keys::reconstruct", &a, &b)?;
                }
            }
        }
        Part::Sign => {
            let keys = dealer_keys::<C>(shape, IdSpec { style, seed: rng.next() }, KeySource::Dealer, rng.next(), prop)?;
            let signers: Vec<Id<C>> = keys.ids[..t as usize].to_vec();
            let mut nonces = BTreeMap::new();
            let mut comms = BTreeMap::new();
            for id in &signers {
                let s = rng.next();
                let a = C::w_commit(keys.kps[id].signing_share(), &mut Tape::random(s));
                let b = frost::round1::commit(keys.kps[id].signing_share(), &mut Tape::random(s));
                same::<_, ()>(prop, "round1::commit", &Ok((a.0.serialize().ok(), a.1)), &Ok((b.0.serialize().ok(), b.1)))?;
                nonces.insert(*id, b.0);
                comms.insert(*id, b.1);
            }
            let mlen = rng.below(40) as usize;
            let msg = rng.bytes(mlen);
            let package = SigningPackage::new(comms, &msg);
            let mut shares = BTreeMap::new();
            for id in &signers {
                let a = C::w_sign(&package, &nonces[id], &keys.kps[id]);
                let b = frost::round2::sign(&package, &nonces[id], &keys.kps[id]);
                same(prop, "round2::sign", &a, &b)?;
                shares.insert(*id, b.map_err(inc)?);
            }
            // refusals agree: a package that lacks the signer's own entry, and one with fewer than t entries
            {
                let me = signers[0];
                let mut c2: BTreeMap<Id<C>, SigningCommitments<C>> = package.signing_commitments().clone();
                let mine = c2.remove(&me).unwrap();
                let outsider = keys.ids.iter().find(|i| !signers.contains(i)).copied().unwrap_or_else(|| fresh_id::<C>(&keys.ids, IdSpec { style, seed: 1 }));
                c2.insert(outsider, mine);
                let p2 = SigningPackage::new(c2, &msg);
                same(prop, "round2::sign", &C::w_sign(&p2, &nonces[&me], &keys.kps[&me]), &frost::round2::sign(&p2, &nonces[&me], &keys.kps[&me]))?;
                let mut c3: BTreeMap<Id<C>, SigningCommitments<C>> = package.signing_commitments().clone();
                while c3.len() >= t as usize && c3.len() > 1 {
                    let k = *c3.keys().next_back().unwrap();
                    if k == me {
                        break;
                    }
                    c3.remove(&k);
                }
                let p3 = SigningPackage::new(c3, &msg);
                same(prop, "round2::sign", &C::w_sign(&p3, &nonces[&me], &keys.kps[&me]), &frost::round2::sign(&p3, &nonces[&me], &keys.kps[&me]))?;
            }
            // honest and with one altered share, every mode
            let mut bad = shares.clone();
            let victim = signers[rng.below(signers.len() as u64) as usize];
            let x = sc_from_bytes::<C>(&shares[&victim].serialize()).ok_or_else(|| inconclusive("share bytes"))? + one::<C>();
            bad.insert(victim, SignatureShare::<C>::deserialize(&sc_bytes::<C>(&x)).map_err(inc)?);
            for set in [&shares, &bad] {
                let a = C::w_aggregate(&package, set, &keys.pubkeys);
                let b = frost::aggregate(&package, set, &keys.pubkeys);
                same(prop, "aggregate", &a, &b)?;
                for mode in [CheaterDetection::Disabled, CheaterDetection::FirstCheater, CheaterDetection::AllCheaters] {
                    let mode2 = match mode {
                        CheaterDetection::Disabled => CheaterDetection::Disabled,
                        CheaterDetection::FirstCheater => CheaterDetection::FirstCheater,
                        _ => CheaterDetection::AllCheaters,
                    };
                    let a = C::w_aggregate_custom(&package, set, &keys.pubkeys, mode);
                    let b = frost::aggregate_custom(&package, set, &keys.pubkeys, mode2);
                    same(prop, "aggregate_custom", &a, &b)?;
                }
            }
        }
        Part::Dkg => {
            let mut sorted = idv.clone();
            sorted.sort();
            let mut r1s = BTreeMap::new();
            let mut r1p = BTreeMap::new();
            for id in &sorted {
                let s = rng.next();
                let a = C::w_dkg_part1(*id, n, t, &mut Tape::random(s));
                let b = frost::keys::dkg::part1::<C, _>(*id, n, t, &mut Tape::random(s));
                same(prop, "keys::dkg::part1", &a, &b)?;
                let (sec, pkg) = b.map_err(inc)?;
                r1s.insert(*id, sec);
                r1p.insert(*id, pkg);
            }
            let mut r2s = BTreeMap::new();
            let mut r2p: BTreeMap<Id<C>, BTreeMap<Id<C>, d2::Package<C>>> = BTreeMap::new();
            for id in &sorted {
                let input: BTreeMap<_, _> = r1p.iter().filter(|(k, _)| *k != id).map(|(k, v)| (*k, v.clone())).collect();
                let a = C::w_dkg_part2(r1s[id].clone(), &input);
                let b = frost::keys::dkg::part2(r1s[id].clone(), &input);
                same(prop, "keys::dkg::part2", &a, &b)?;
                let (sec, out) = b.map_err(inc)?;
                r2s.insert(*id, sec);
                r2p.insert(*id, out);
            }
            for id in &sorted {
                let in1: BTreeMap<_, _> = r1p.iter().filter(|(k, _)| *k != id).map(|(k, v)| (*k, v.clone())).collect();
                let in2: BTreeMap<_, _> = sorted.iter().filter(|k| *k != id).map(|k| (*k, r2p[k][id].clone())).collect();
                let a = C::w_dkg_part3(&r2s[id], &in1, &in2);
                let b = frost::keys::dkg::part3(&r2s[id], &in1, &in2);
                same(prop, "keys::dkg::part3", &a, &b)?;
                // refusals agree: the own package echoed into part2, a missing and a wrong round-two share in part3
                let mut echo = in1.clone();
                echo.insert(*id, r1p[id].clone());
                same(prop, "keys::dkg::part2", &C::w_dkg_part2(r1s[id].clone(), &echo), &frost::keys::dkg::part2(r1s[id].clone(), &echo))?;
                let mut missing = in2.clone();
                let k = *missing.keys().next().unwrap();
                let taken = missing.remove(&k).unwrap();
                same(prop, "keys::dkg::part3", &C::w_dkg_part3(&r2s[id], &in1, &missing), &frost::keys::dkg::part3(&r2s[id], &in1, &missing))?;
                let mut wrong = in2.clone();
                let other = sorted.iter().find(|x| *x != id && **x != k).copied();
                if let Some(o) = other {
                    wrong.insert(k, in2[&o].clone());
                    same(prop, "keys::dkg::part3", &C::w_dkg_part3(&r2s[id], &in1, &wrong), &frost::keys::dkg::part3(&r2s[id], &in1, &wrong))?;
                }
                let _ = taken;
            }
        }
        Part::Refresh => {
            let keys = dealer_keys::<C>(shape, IdSpec { style, seed: rng.next() }, KeySource::Dealer, rng.next(), prop)?;
            let s = rng.next();
            let a = C::w_compute_refreshing_shares(keys.pubkeys.clone(), &keys.ids, &mut Tape::random(s));
            let b = frost::keys::refresh::compute_refreshing_shares::<C, _>(keys.pubkeys.clone(), &keys.ids, &mut Tape::random(s));
            same(prop, "keys::refresh::compute_refreshing_shares", &a, &b)?;
            {
                let mut unknown = keys.ids.clone();
                unknown.push(fresh_id::<C>(&keys.ids, IdSpec { style, seed: s }));
                let a = C::w_compute_refreshing_shares(keys.pubkeys.clone(), &unknown, &mut Tape::random(s));
                let b = frost::keys::refresh::compute_refreshing_shares::<C, _>(keys.pubkeys.clone(), &unknown, &mut Tape::random(s));
                same(prop, "keys::refresh::compute_refreshing_shares", &a, &b)?;
            }
            let (rs, _) = b.map_err(inc)?;
            for sh in &rs {
                let id = *sh.identifier();
                let a = C::w_refresh_share(sh.clone(), &keys.kps[&id]);
                let b = frost::keys::refresh::refresh_share(sh.clone(), &keys.kps[&id]);
                same(prop, "keys::refresh::refresh_share", &a, &b)?;
            }
            // distributed procedure
            let mut r1s = BTreeMap::new();
            let mut r1p = BTreeMap::new();
            for id in &keys.ids {
                let s = rng.next();
                let a = C::w_refresh_dkg_part1(*id, n, t, &mut Tape::random(s));
                let b = frost::keys::refresh::refresh_dkg_part1::<C, _>(*id, n, t, &mut Tape::random(s));
                same(prop, "keys::refresh::refresh_dkg_part1", &a, &b)?;
                let (sec, pkg) = b.map_err(inc)?;
                r1s.insert(*id, sec);
                r1p.insert(*id, pkg);
            }
            let mut r2s = BTreeMap::new();
            let mut r2p: BTreeMap<Id<C>, BTreeMap<Id<C>, d2::Package<C>>> = BTreeMap::new();
            for id in &keys.ids {
                let input: BTreeMap<_, _> = r1p.iter().filter(|(k, _)| *k != id).map(|(k, v)| (*k, v.clone())).collect();
                let a = C::w_refresh_dkg_part2(r1s[id].clone(), &input);
                let b = frost::keys::refresh::refresh_dkg_part2(r1s[id].clone(), &input);
                same(prop, "keys::refresh::refresh_dkg_part2", &a, &b)?;
                let (sec, out) = b.map_err(inc)?;
                r2s.insert(*id, sec);
                r2p.insert(*id, out);
            }
            for id in &keys.ids {
                let in1: BTreeMap<_, _> = r1p.iter().filter(|(k, _)| *k != id).map(|(k, v)| (*k, v.clone())).collect();
                let in2: BTreeMap<_, _> = keys.ids.iter().filter(|k| *k != id).map(|k| (*k, r2p[k][id].clone())).collect();
                let a = C::w_refresh_dkg_shares(&r2s[id], &in1, &in2, keys.pubkeys.clone(), keys.kps[id].clone());
                let b = frost::keys::refresh::refresh_dkg_shares(&r2s[id], &in1, &in2, keys.pubkeys.clone(), keys.kps[id].clone());
                same(prop, "keys::refresh::refresh_dkg_shares", &a, &b)?;
            }
        }
        Part::Repair => {
            let shape = Shape { n: n.max(3), t: t.min(n.max(3) - 1) };
            let keys = dealer_keys::<C>(shape, IdSpec { style, seed: rng.next() }, KeySource::Dealer, rng.next(), prop)?;
            let target = *keys.ids.last().unwrap();
            let mut helpers: Vec<Id<C>> = keys.ids[..shape.t as usize].to_vec();
            helpers.reverse();
            let mut deltas: BTreeMap<Id<C>, BTreeMap<Id<C>, Delta<C>>> = BTreeMap::new();
            for h in &helpers {
                let s = rng.next();
                let a = C::w_repair_part1(&helpers, &keys.kps[h], &mut Tape::random(s), target);
                let b = frost::keys::repairable::repair_share_part1::<C, _>(&helpers, &keys.kps[h], &mut Tape::random(s), target);
                same(prop, "keys::repairable::repair_share_part1", &a, &b)?;
                deltas.insert(*h, b.map_err(inc)?);
            }
            // refusals agree: a helper list with a duplicate (still t distinct helpers), a list without the caller
            {
                let me = helpers[0];
                let mut dup = helpers.clone();
                dup.push(*helpers.last().unwrap());
                let s = rng.next();
                let a = C::w_repair_part1(&dup, &keys.kps[&me], &mut Tape::random(s), target);
                let b = frost::keys::repairable::repair_share_part1::<C, _>(&dup, &keys.kps[&me], &mut Tape::random(s), target);
                same(prop, "keys::repairable::repair_share_part1", &a, &b)?;
                let without: Vec<Id<C>> = helpers.iter().filter(|h| **h != me).copied().chain(keys.ids.iter().filter(|i| !helpers.contains(i) && **i != target).copied()).collect();
                let a = C::w_repair_part1(&without, &keys.kps[&me], &mut Tape::random(s), target);
                let b = frost::keys::repairable::repair_share_part1::<C, _>(&without, &keys.kps[&me], &mut Tape::random(s), target);
                same(prop, "keys::repairable::repair_share_part1", &a, &b)?;
            }
            let mut sigmas = Vec::new();
            for j in &helpers {
                let recv: Vec<Delta<C>> = helpers.iter().filter_map(|i| deltas[i].get(j).copied()).collect();
                let a = C::w_repair_part2(&recv);
                let b = frost::keys::repairable::repair_share_part2::<C>(&recv);
                same::<_, ()>(prop, "keys::repairable::repair_share_part2", &Ok(a.serialize()), &Ok(b.serialize()))?;
                sigmas.push(b);
            }
            let a = C::w_repair_part3(&sigmas, target, &keys.pubkeys);
            let b = frost::keys::repairable::repair_share_part3::<C>(&sigmas, target, &keys.pubkeys);
            same(prop, "keys::repairable::repair_share_part3", &a, &b)?;
        }
    }
    Ok(())
}
