#!/bin/bash
# usage: tools/run_mutants.sh [pattern]   -- applies each /verif/mutants/<Cxx>-*.diff to /repo, runs ./check <Cxx> quick, expects exit 1
cd /repo || exit 2
if [ -n "$(git status --porcelain --untracked-files=no)" ]; then echo "repo not clean"; exit 2; fi
for m in /verif/mutants/${1:-C}*.diff; do
  name=$(basename $m .diff); prop=${name%%-*}
  git apply "$m" || { echo "$name: DOES-NOT-APPLY"; continue; }
  out=$(cd /verif && ./check $prop quick 2>/dev/null); code=$?
  key=$(echo "$out" | grep -o "key=[^ ]*" | sort | uniq -c | sort -rn | head -2 | awk '{print $2}' | paste -sd, )
  echo "$name exit=$code $key"
  git checkout -- .
done
git status --porcelain --untracked-files=no
