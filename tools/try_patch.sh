#!/bin/bash
# usage: tools/try_patch.sh <patch.diff> <Cxx> [more Cxx...]   -- applies the patch to /repo, runs quick checks, reverts
patch="$1"; shift
cd /repo || exit 2
if [ -n "$(git status --porcelain --untracked-files=no)" ]; then echo "repo not clean"; exit 2; fi
git apply "$patch" || { echo "patch does not apply"; exit 2; }
for p in "$@"; do
  out=$(cd /verif && VERIF_SEED=${VERIF_SEED:-0} ./check $p ${TIER:-quick} 2>/dev/null)
  code=$?
  echo "== $p exit=$code"
  echo "$out" | grep -E "VIOLATION|key=|INCONCLUSIVE|wall=" | head -${LINES_MAX:-6}
done
git checkout -- . 
git status --porcelain --untracked-files=no
