#!/usr/bin/env python3
"""Regenerates /verif/MANIFEST.json from the table below (kept next to the checks so the two
do not drift).  Run: python3 tools/mkmanifest.py"""
import json, os, sys

HERE = os.path.dirname(os.path.dirname(os.path.abspath(__file__)))

# id -> (category, technique, level text, level note, design ref)
CHECKS = {
    "C01": ("exploration",
            "property-based testing (proptest, stratified generators) with independent-verifier oracles",
            "Generated search over (suite, n, t, identifier style, key source, signer subset, message, seeds); every case must sign, "
            "pass share verification, aggregate identically in all modes and verify under three independent verifiers. "
            "Sampling of an algebraic identity whose failure regions are large once the frozen test dimensions vary.",
            "Trusts curve-crate group arithmetic, ed25519-dalek verify_strict, libsecp256k1, and /verif/ref/frostref.py as pinned by RFC 9591/8032/BIP-340 vectors.",
            "DESIGN.md §4 C01"),
}

NOT_APPLICABLE = {}

def main():
    props = [json.loads(l)["id"] for l in open(os.path.join(HERE, "properties.jsonl"))]
    checks = []
    for pid in props:
        if pid not in CHECKS:
            continue
        cat, tech, text, note, ref = CHECKS[pid]
        checks.append({
            "property_id": pid,
            "quick_cmd": "./check %s quick" % pid,
            "thorough_cmd": "./check %s thorough" % pid,
            "evidence_file": "/verif/evidence/%s.json" % pid,
            "replay_cmd_template": "./check replay {path}",
            "engine": "fv",
            "level_claimed": {"category": cat, "text": text, "design_ref": ref},
            "level_note": note,
            "technique": tech,
        })
    na = []
    for pid in props:
        if pid not in CHECKS:
            na.append({"property_id": pid, "reason": NOT_APPLICABLE.get(pid, "check not built yet in this session (planned in DESIGN.md §4); not claimed until it exists and is validated")})
    m = {
        "version": 1,
        "setup_cmd": "./check setup",
        "hooks": {
            "guard": "none",
            "enable": "no source hooks are needed: the harness uses the public API plus the `internals` cargo feature of frost-core, which the ciphersuite crates already enable through frost-rerandomized",
            "baseline_off_cmd": "cd /repo && cargo test --workspace --no-fail-fast --offline",
            "source_commits": [],
            "add_only": True,
        },
        "engines": [
            {"name": "fv", "path": "/verif/harness", "serves_properties": [c["property_id"] for c in checks],
             "kind_free_text": "Rust harness: proptest generators + shrinking, stratified/sharded runner, reference-model oracles, Python RFC reference over a pipe"},
        ],
        "checks": checks,
        "notes": "See DESIGN.md. Exit codes: 0 held, 1 violation (VIOLATION line + replay file), 2 inconclusive/harness problem (never a violation).",
        "not_applicable": na,
    }
    json.dump(m, open(os.path.join(HERE, "MANIFEST.json"), "w"), indent=1)
    print("MANIFEST.json: %d checks, %d not claimed" % (len(checks), len(na)))

if __name__ == "__main__":
    main()
