#!/usr/bin/env python3
"""Regenerates /verif/MANIFEST.json from the table below (kept next to the checks so the two
do not drift).  Run: python3 tools/mkmanifest.py"""
import json, os, sys

HERE = os.path.dirname(os.path.dirname(os.path.abspath(__file__)))

# id -> (category, technique, level text, level note, design ref)
CHECKS = {
    "C01": ("exploration",
            "property-based testing (proptest, stratified generators) with independent-verifier oracles",
            "Generated search over (suite, n, t, identifier style, key source, signer subset, message, seeds); every case must sign, "
            "pass share verification, aggregate identically in all modes and verify under three independent verifiers. "
            "Sampling of an algebraic identity whose failure regions are large once the frozen test dimensions vary.",
            "Trusts curve-crate group arithmetic, ed25519-dalek verify_strict, libsecp256k1, and /verif/ref/frostref.py as pinned by RFC 9591/8032/BIP-340 vectors.",
            "DESIGN.md §4 C01"),
    "C02": ("exploration",
            "differential property-based testing against an independent RFC 9591 / BIP-340 reference implementation (Python, pinned to the RFC vectors)",
            "Every generated FROST run is recomputed by frostref.py from the same shares, tape-recorded random bytes and message and compared byte for byte "
            "(nonces, commitments, commitment list and order, binding-factor inputs, binding factors, group commitment, challenge, interpolation coefficients, "
            "shares, signature); exhaustive sweep of all 65535 u16 identifier encodings; single-signer interoperability in both directions.",
            "Trusts frostref.py (self-tested against RFC 9591 App. E vectors of all suites, RFC 8032 and BIP-340 vectors at setup), ed25519-dalek and libsecp256k1 as signers/verifiers.",
            "DESIGN.md §4 C02"),
    "C03": ("exploration",
            "property-based testing with enumerated sub-threshold subsets and a hand-assembled-signature oracle",
            "For generated groups every size k<t and every k-subset (small C(n,k)) is run: honest signer/coordinator refusals with the documented errors, the everybody-lies run in all "
            "three detection modes plus the hand-summed signature, interpolation of k shares, and the t-share control.",
            "Secrecy itself is information-theoretic and not testable; observable consequences only. Trusts curve arithmetic and the harness's own Lagrange routine.",
            "DESIGN.md §4 C03"),
    "C04": ("fault_enumeration",
            "fault enumeration over cheater subsets x fault kinds x detection modes against a scalar reference model",
            "Per generated session every non-empty cheater subset (|S|<=5) with eight fault kinds and a cancelling variant is judged in Disabled/FirstCheater/AllCheaters and standalone "
            "share verification against the model cheaters={i|submitted!=honest}, delta=sum(submitted-honest); Taproot parity combinations are forced; per session also a re-randomized and (Taproot) a tweaked session through their own aggregation entry points.",
            "Honest shares are those produced by the library's own sign (their correctness is C01/C02). Larger signer sets are sampled.",
            "DESIGN.md §4 C04"),
    "C05": ("fault_enumeration",
            "exhaustive slot-filling enumeration over two concurrent sessions plus single-field substitution catalogue",
            "For generated session pairs every filling of commitment slots, message and share slots with material of A or B is aggregated and share-verified; every single-field "
            "substitution of the package, the compensated substitution (D+rho*T, E-T), identity commitments and the signer-side refusals are checked.",
            "A share being valid for a different package by chance is taken as impossible (negligible probability).",
            "DESIGN.md §4 C05"),
    "C06": ("fault_enumeration",
            "property-based testing of dealer output invariants with complete single-coordinate tampering enumeration",
            "Generated (n,t,identifier list, entry point) sharings are checked against naive-power VSS evaluation, own Lagrange interpolation (t reconstruct, t-1 do not, all on one polynomial), "
            "field consistency; every single-coordinate tampering (value, identifier, each coefficient, truncate, extend) and every invalid-parameter class must be refused.",
            "Trusts curve arithmetic; interpolation/evaluation are the harness's own routines.",
            "DESIGN.md §4 C06"),
    "C07": ("exploration",
            "property-based testing of the three-part DKG against an independently recomputed key and shares",
            "Generated DKG runs (n, t, identifier styles, tapes): identical public key packages, package consistency, group key = sum of constant-term commitments, shares = sum_j f_j(i) by naive "
            "evaluation (Taproot: even-Y normalisation + BIP-341 tweak from the Python reference), then a t-subset and the full set sign and verify independently.",
            "Trusts curve arithmetic and frostref.py's taproot_tweak_pubkey.",
            "DESIGN.md §4 C07"),
    "C08": ("fault_enumeration",
            "complete fault enumeration over (receiver, sender, fault kind, field) on generated DKG transcripts",
            "Per honest transcript (n in 2..6, every t) every (receiver, sender) pair x ~30 single faults (both proof components, every commitment coefficient, lengths, foreign/other-run "
            "packages, misfiled/missing/surplus, all share faults) must fail at the first consuming step, never yield key material, and name exactly the sender when attributable.",
            "'Attributable' = proof, coefficient and share faults; structural faults must only fail without naming a correctly filed honest sender.",
            "DESIGN.md §4 C08"),
    "C09": ("exploration",
            "exhaustive small-scope enumeration of delivery histories (two concurrent DKG runs) against a delivery model",
            "For n in {3,4}, every t, every participant and own run: every filling of the round-one slots with {A,B,absent} and of the round-two slots with {(run, addressee)} or absent is "
            "executed against the real part2/part3; part3 Ok implies the model's matching condition and internally consistent key material determined by the filed round-one set; all 2^n common "
            "round-one sets are run jointly (same public package, joint signing). Exhaustive in the stated scope, sampled for n in {5,6} in the thorough tier.",
            "Exhaustive only for n<=4, two runs, one transcript pair per (suite,n,t,seed). Consistent mixed-run deliveries may be accepted or rejected; perfect single-run delivery must succeed.",
            "DESIGN.md §4 C09"),
    "C10": ("exploration",
            "stateful property-based testing of refresh scenarios (1-3 consecutive refreshes) with exhaustive old/new share mixes",
            "Generated scenarios over (n,t,ids,key source,procedure,remaining sets,rounds): invariants of refreshed packages, new-only sets sign, every old/new mix over a t-subset fails against both "
            "public packages in all modes and hand-summed, removed participants are rejected, non-zero constant / changed threshold / unknown participant refreshes are refused.",
            "'Retires old shares' = mixes and removed participants fail; t old shares alone remain a sharing of the same key and are not asserted to fail.",
            "DESIGN.md §4 C10"),
    "C11": ("exploration",
            "property-based testing of the three repair parts against the harness's own Lagrange interpolation",
            "Generated (n,t,ids,key source incl. refreshed,helper sets of every size,existing or brand-new repaired identifier): delta sums equal zeta_i*s_i, repaired share lies on the group polynomial "
            "(= lost share), package fields match, repaired participant signs with t-1 others; too few / duplicate / caller-less helper lists are refused.",
            "Trusts curve field arithmetic; expected values by the harness's own interpolation through holders other than the helpers where possible.",
            "DESIGN.md §4 C11"),
    "C12": ("exploration",
            "round-trip and differential decoding tests: generated values, enumerated byte mutations, reference-decoder oracle",
            "Every wire type from generated protocol runs round-trips in postcard and JSON; for fixed-size primitives the reference's invalid-encoding catalogue, random strings, every single-bit flip, "
            "every first/last byte value and wrong lengths are decoded by the library and by the independent Python decoder (accept/reject must agree, accepted strings must re-encode to themselves); "
            "packages: every version 1..255, every foreign suite id (binary+JSON), embedded primitives replaced by catalogue entries, bit flips of fixed-layout packages.",
            "frostref.py decoders define validity (RFC 9591 §6, RFC 8032, RFC 9496, SEC1 compressed only). postcard trailing bytes / over-long varints on variable-layout packages are out of the claim.",
            "DESIGN.md §4 C12"),
    "C13": ("fault_enumeration",
            "crash-point enumeration: every subset of round boundaries x both encodings, resume-vs-uninterrupted byte comparison; real process restarts in the thorough tier",
            "For generated runs of DKG, DKG refresh, dealer refresh, signing (preprocess batches) and repair, every subset of the interrupted participant's round boundaries is used as crash points: "
            "the whole local state is encoded (postcard and JSON), dropped and decoded, and all later outputs must be byte-identical to the uninterrupted execution under the same tapes. "
            "Thorough: state written to files by one process and continued by a fresh process.",
            "Determinism of parts 2/3, sign and aggregate; part 1 / commit run under identical recorded tapes in both executions.",
            "DESIGN.md §4 C13"),
    "C14": ("exploration",
            "structure-aware mutation testing (proptest) of all decoders and 22 protocol entry points + corpus replay; coverage-guided libFuzzer campaigns (cargo-fuzz) in the thorough tier",
            "No-panic oracle (overflow checks and debug assertions on) with semantic side oracles (accepted encodings round-trip, Ok(signature) verifies, Ok(key material) consistent) over mutated "
            "encodings of every wire type (binary+JSON, splices across types and suites, count inflation) and over mutation scripts applied to cached honest transcripts for every entry point that "
            "consumes peer material. The same bodies are the libFuzzer targets fz_decode and fz_proto.",
            "Not finding a panic is not proof of absence. The caller's own secret state is honest, as the property states.",
            "DESIGN.md §4 C14, §2.5"),
    "C15": ("exploration",
            "property-based testing with a recording byte-stream RNG, differential against the RFC nonce_generate reference, metamorphic single-draw perturbation",
            "For generated shares, tapes (random, constant, period 32/64) and commit/preprocess sequences: exactly 64 fresh stream bytes per pair, each nonce equals the reference's "
            "H3(32 bytes || share), commitments equal G*nonce; perturbing the bytes of one nonce changes exactly that nonce, another share changes all, random tapes give pairwise distinct non-zero nonces.",
            "frostref.py nonce_generate (pinned to RFC vectors); the grouping of RNG calls is not constrained, only the bytes consumed.",
            "DESIGN.md §4 C15"),
    "C16": ("exploration",
            "property-based testing with a recording RNG: reproducibility, whole-tape sensitivity and per-draw perturbation (independence matrix) over all 10 RNG-taking entry points",
            "Each entry point is run under a recorded tape, again under the same tape (bit-identical), under a disjoint tape (every secret-derived public value changes) and once per recorded draw with "
            "only that draw changed: every value changes under some single draw, no single draw changes two values that must be independent; values are pairwise distinct; draws >= secrets.",
            "Secrets are observed through derived public values; order/granularity of RNG calls is not fixed; batch blinders are observed through the draw log and C19.",
            "DESIGN.md §4 C16"),
    "C17": ("exploration",
            "property-based testing of re-randomized signing with tamper enumeration over the seed and every commitment field; C04 model reused",
            "Generated sessions in three randomizer modes: participant/coordinator parameter agreement, randomized key = key + alpha*G, validity under the randomized key only (library + independent "
            "verifiers), randomizer equals the reference hash of seed || commitment list and changes under every seed/commitment/identifier tampering, tampered participant is exactly the culprit, "
            "cheater model and threshold refusals hold under randomization.",
            "Reference randomizer hash uses the implementation family's 'randomizer' domain separation (not in RFC 9591).",
            "DESIGN.md §4 C17"),
    "C18": ("exploration",
            "property-based testing with forced coverage of all 8 parity triples x 4 merkle-root classes x 2 key sources; independent BIP-340/341 oracles",
            "Every (internal key parity, output key parity, group commitment parity) triple is constructed by re-seeding; the 64-byte signature must verify under x(Q) with libsecp256k1 and the Python "
            "BIP-340 verifier, Q from the reference's taproot_tweak_pubkey, and not under x(P); tweak keeps packages consistent; the C04 cheater model holds in every triple; DKG keys are the key-path-only tweak.",
            "libsecp256k1 and frostref.py (BIP-340 vectors) are trusted.",
            "DESIGN.md §4 C18"),
    "C19": ("exploration",
            "property-based testing of batch verification against the per-item oracle incl. crafted cancelling pairs",
            "Generated batches (size 0..64, shared/distinct keys and messages) with invalid items of six kinds at generated positions and complementary pairs whose errors cancel in an unblinded sum (also with one response exactly zero, also at the head of the queue): "
            "Verifier::verify must be Ok iff every item verifies individually; empty batch rejected; Item::verify_single agrees with ordinary and independent verification.",
            "The ~2^-128 soundness error is taken on faith (a wrongly accepted batch is re-run under a second tape before being reported).",
            "DESIGN.md §4 C19"),
    "C20": ("exploration",
            "property-based testing with an allocator wrapper that snapshots freed heap blocks (with a mandatory positive control), zeroize checks and a debug-output leak scanner (with control)",
            "For every secret-bearing type from generated runs: after drop no limb of any secret scalar is present in the blocks freed; the control (same bytes freed without destructor) must show every "
            "limb or the run is void; explicit zeroize leaves zero; {:?}/{:#?} contain no hex/decimal/limb encoding of any secret (scanner validated by a positive control).",
            "Heap only, optimised build; registers/stack copies are not observable. SigningShare is Copy (no destructor): zeroize and debug only.",
            "DESIGN.md §4 C20"),
}

NOT_APPLICABLE = {}

def main():
    props = [json.loads(l)["id"] for l in open(os.path.join(HERE, "properties.jsonl"))]
    checks = []
    for pid in props:
        if pid not in CHECKS:
            continue
        cat, tech, text, note, ref = CHECKS[pid]
        checks.append({
            "property_id": pid,
            "quick_cmd": "./check %s quick" % pid,
            "thorough_cmd": "./check %s thorough" % pid,
            "evidence_file": "/verif/evidence/%s.json" % pid,
            "replay_cmd_template": "./check replay {path}",
            "engine": "fv",
            "level_claimed": {"category": cat, "text": text + " Extensions made after the seeding rounds (further key sources, entry points, sizes, encodings) are listed in DESIGN.md §7.7.", "design_ref": ref + ", §7.7"},
            "level_note": note,
            "technique": tech,
        })
    na = []
    for pid in props:
        if pid not in CHECKS:
            na.append({"property_id": pid, "reason": NOT_APPLICABLE.get(pid, "check not built yet in this session (planned in DESIGN.md §4); not claimed until it exists and is validated")})
    m = {
        "version": 1,
        "setup_cmd": "./check setup",
        "hooks": {
            "guard": "none",
            "enable": "no source hooks are needed: the harness uses the public API plus the `internals` cargo feature of frost-core, which the ciphersuite crates already enable through frost-rerandomized",
            "baseline_off_cmd": "cd /repo && cargo test --workspace --no-fail-fast --offline",
            "source_commits": [],
            "add_only": True,
        },
        "engines": [
            {"name": "fv", "path": "/verif/harness", "serves_properties": [c["property_id"] for c in checks],
             "kind_free_text": "Rust harness: proptest generators + shrinking, stratified/sharded runner, reference-model oracles, Python RFC reference over a pipe"},
            {"name": "fv-fuzz", "path": "/verif/fuzz", "serves_properties": ["C14"],
             "kind_free_text": "cargo-fuzz / libFuzzer targets fz_decode and fz_proto whose bodies (with the semantic oracles inside) live in harness/src/fuzz_entry.rs; seed corpus in /verif/corpus"},
        ],
        "checks": checks,
        "notes": "See DESIGN.md. Exit codes: 0 held, 1 violation (VIOLATION line + replay file), 2 inconclusive/harness problem (never a violation).",
        "not_applicable": na,
    }
    json.dump(m, open(os.path.join(HERE, "MANIFEST.json"), "w"), indent=1)
    print("MANIFEST.json: %d checks, %d not claimed" % (len(checks), len(na)))

if __name__ == "__main__":
    main()
