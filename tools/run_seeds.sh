#!/bin/bash
# usage: tools/run_seeds.sh [pattern]   -- applies every archived seeded change (/verif/seeded/<name>/patch.diff) to /repo,
# runs the quick check of the property it targets, reverts; prints one line per seed. Expect exit=1 for all.
cd /verif
pat="${1:-}"
for d in seeded/*${pat}*/; do
  name=$(basename $d)
  # the property the change breaks (meta.json breaks_property; by default the one it was written for)
  prop=$(python3 -c "import json,sys; print(str(json.load(open('/verif/$d/meta.json')).get('breaks_property','${name%%-*}')).split()[0])" 2>/dev/null)
  case "$prop" in C[0-9][0-9]) ;; *) prop=${name%%-*};; esac
  cd /repo || exit 2
  if [ -n "$(git status --porcelain --untracked-files=no)" ]; then echo "repo not clean"; exit 2; fi
  git apply /verif/$d/patch.diff || { echo "$name patch does not apply"; continue; }
  out=$(cd /verif && VERIF_SEED=${VERIF_SEED:-0} ./check $prop quick 2>/dev/null); code=$?
  key=$(echo "$out" | grep -oE "key=[^ ]+" | sort | uniq -c | sort -rn | head -1 | awk '{print $2}')
  echo "$name $prop exit=$code $key"
  git checkout -- .
  cd /verif
done
