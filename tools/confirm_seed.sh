#!/bin/bash
# usage: tools/confirm_seed.sh <Cxx> <crate-dir-for-demo e.g. frost-ed25519> <demo-file-name>
# Confirms in the scratch worktree /tmp/seed/<Cxx>: patch == worktree diff, existing suite green with the patch,
# demo fails with the patch and passes without. Writes /tmp/seed-out/<Cxx>/confirm.log
id="$1"; crate="$2"; demo="$3"
wt=${SEED_ROOT:-/tmp/seed}/$id; out=${SEED_OUT:-/tmp/seed-out}/$id
export CARGO_NET_OFFLINE=true
cd $wt || exit 2
{
echo "## confirm $id $(date -u +%FT%TZ)"
git stash -q 2>/dev/null; git checkout -q -- . ; git clean -fdq -e target
git apply $out/patch.diff && echo "patch applies: yes" || { echo "patch applies: NO"; exit 1; }
echo "## existing suite with patch"
cargo test --workspace --offline > $out/suite.log 2>&1
echo "suite ok-results: $(grep -c '^test result: ok' $out/suite.log)  FAILED-results: $(grep -c '^test result: FAILED' $out/suite.log)  passed-total: $(grep '^test result' $out/suite.log | sed -E 's/.* ([0-9]+) passed.*/\1/' | paste -sd+ | bc)  failed-tests: $(grep -cE '^test .* FAILED' $out/suite.log)  compile-errors: $(grep -cE '^error' $out/suite.log)"
rm -f $out/suite.log
echo "## demo with patch (expect failure)"
cp $out/demo/$demo $crate/tests/$demo
name="${demo%.rs}"
cargo test -p $crate --test $name --offline 2>&1 | grep -E "^test |^test result|panicked" | head -20
echo "## demo without patch (expect pass)"
git apply -R $out/patch.diff
cargo test -p $crate --test $name --offline 2>&1 | grep -E "^test |^test result|panicked" | head -20
rm -f $crate/tests/$demo
git status --short | head
} > $out/confirm.log 2>&1
echo "confirm $id done"
