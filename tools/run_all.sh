#!/bin/bash
# usage: tools/run_all.sh <tier> <seed...>   -- runs every check, prints one line per (seed, property)
tier="$1"; shift
cd /verif
for seed in "$@"; do
  for p in C01 C02 C03 C04 C05 C06 C07 C08 C09 C10 C11 C12 C13 C14 C15 C16 C17 C18 C19 C20; do
    out=$(VERIF_SEED=$seed ./check $p $tier 2>/dev/null); code=$?
    echo "seed=$seed $p exit=$code $(echo "$out" | tail -1)"
    if [ $code -ne 0 ]; then echo "$out" | grep -E "VIOLATION|key=|INCONCLUSIVE" | head -5; fi
  done
done
