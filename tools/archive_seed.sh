#!/bin/bash
# usage: tools/archive_seed.sh <Cxx> <dest-name> "<checks that catch it + keys>"
id="$1"; name="$2"; caught="$3"
src=${SEED_OUT:-/tmp/seed-out}/$id; dst=/verif/seeded/$name
mkdir -p $dst/demo
cp $src/patch.diff $dst/patch.diff
cp $src/demo/*.rs $src/demo/RUN.md $dst/demo/ 2>/dev/null
python3 - "$src" "$dst" "$id" "$caught" <<'PY'
import json,sys,re
src,dst,pid,caught=sys.argv[1:5]
try: meta=json.load(open(src+'/meta.json'))
except Exception as e: meta={"property":pid,"summary":"(agent meta.json unreadable: %s)"%e}
log=open(src+'/confirm.log').read()
suite_fail=len(re.findall(r'test result: FAILED', log.split('## demo with patch')[0]))
demo_with=log.split('## demo with patch')[1].split('## demo without patch')[0]
demo_without=log.split('## demo without patch')[1]
meta['breaks_property']=pid
meta['confirmed_by_verifier']={
 "worktree":"scratch worktree for %s (scratch git worktree of /repo at the pinned commit, removed afterwards)"%pid,
 "ran":["git apply patch.diff","cargo test --workspace --offline  (existing suite, with patch)","cargo test -p <crate> --test <demo> --offline  (with patch)","git apply -R patch.diff; same demo (without patch)"],
 "existing_suite_failures_with_patch":suite_fail,
 "demo_with_patch":[l for l in demo_with.strip().splitlines() if l.startswith('test result')],
 "demo_without_patch":[l for l in demo_without.strip().splitlines() if l.startswith('test result')],
}
meta['caught_by']=caught
json.dump(meta,open(dst+'/meta.json','w'),indent=1)
print(dst, meta['confirmed_by_verifier']['existing_suite_failures_with_patch'], meta['confirmed_by_verifier']['demo_with_patch'], meta['confirmed_by_verifier']['demo_without_patch'])
PY
git -C /repo worktree remove --force ${SEED_ROOT:-/tmp/seed}/$id 2>/dev/null
rm -rf ${SEED_OUT:-/tmp/seed-out}/$id
