#![no_main]
// byte 0: suite, byte 1: wire type and encoding, rest: candidate encoding. Oracle inside fv::fuzz_entry::decode.
libfuzzer_sys::fuzz_target!(|data: &[u8]| {
    fv::fuzz_entry::decode(data);
});
