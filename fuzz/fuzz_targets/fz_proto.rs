#![no_main]
// structure-aware: the bytes are a mutation script applied to cached honest transcripts. Oracle inside fv::fuzz_entry::proto.
libfuzzer_sys::fuzz_target!(|data: &[u8]| {
    fv::fuzz_entry::proto(data);
});
